/*
 * C18 - hex dump output parses back to the same bytes; the parser is safe on
 * any text (librfn/hex.c).
 *
 * Engine C (bounded-exhaustive enumeration), three parts:
 *  (a) dump -> parse: byte arrays of length 0..49, every byte value at every
 *      position over 5 backgrounds; hex_dump_to_file() into a memstream, the
 *      text shape is checked, the text is parsed back with hex_get_byte().
 *  (b) well-formed text: every text of the grammar
 *          line := [hexdigit+ ':'] (ws* ["0x"] hex hex)* ws* '\n'
 *      built from a finite token alphabet, 1 and 2 lines, up to 3 pairs a
 *      line, plus a sweep over all 22x22 two-character hex pairs. The expected
 *      bytes come from an independent reference parser of that grammar.
 *  (c) arbitrary text: ALL strings of length <= 7 (quick) / <= 8 (thorough)
 *      over { 0 a F x : ' ' '\n' z 0x80 }, placed with the NUL as the last byte
 *      before a PROT_NONE page and, second pass, starting right after one.
 *
 * hex_get_byte(s, &p) keeps its cursor in the caller's variable *p: the first
 * call passes the text, later calls pass s == NULL and resume from *p; at the
 * end *p becomes NULL. Two calling protocols are driven:
 *   mode 1: hex_get_byte(text, &p), then hex_get_byte(NULL, &p) ...   (resume)
 *   mode 2: hex_get_byte(cur, &cur) on every call (what tests/hextest.c does);
 *           here every call is a "first" call, so an address prefix on a later
 *           line would swallow the rest of the current line by construction;
 *           mode 2 is therefore only value-checked on texts without ':'.
 *
 * A failing case is minimised (deterministic greedy deletion/canonicalisation
 * that keeps the same failure kind) and the signature is
 *      C18<part>|<kind>|<minimal case>
 * so one root cause gives one or very few signatures.
 */
#include "vx.h"

#include <ctype.h>

#include "hex.c"

#define MAXT 200			/* longest text handled */
#define EXTRA 3				/* calls made after the first -1 */
#define MAXCALLS (MAXT + 2 + EXTRA)

/* ------------------------------------------------------------ guarded memory */

static uint8_t *GR_END;			/* one past the last accessible byte before a guard page */
static uint8_t *GL_BASE;		/* first accessible byte after a guard page */
static uint8_t *AR_END;			/* like GR_END, for the byte array of part (a) */
static const char **CUR;		/* the caller's cursor variable, itself flush against a guard page */
static const char *POISON;		/* an address inside a PROT_NONE page */
static int left_dirty;

static void mem_setup(void)
{
	GR_END = (uint8_t *)vx_guard_alloc(4096, 1) + 4096;
	GL_BASE = vx_guard_alloc(4096, 0);
	AR_END = (uint8_t *)vx_guard_alloc(4096, 1) + 4096;
	CUR = vx_guard_alloc(sizeof(*CUR), 1);
	POISON = (const char *)GR_END + 64;
	memset(GL_BASE, '3', 4096);
	memset(GR_END - 4096, '3', 4096);
}

/* place == 0: the NUL is the last accessible byte; place == 1: the first
 * character is the first accessible byte (what follows the NUL is filled with
 * hex digits so that running over the NUL would be seen as extra bytes) */
static const char *place_text(const uint8_t *t, int n, int place)
{
	uint8_t *d;
	if (place) {
		d = GL_BASE;
		if (left_dirty > n) memset(d + n + 1, '3', (size_t)(left_dirty - n));
		left_dirty = n;
	} else
		d = GR_END - (n + 1);
	memcpy(d, t, (size_t)n);
	d[n] = 0;
	return (const char *)d;
}

/* ------------------------------------------------------- running the parser */

typedef struct {
	int n;				/* calls made */
	int v[MAXCALLS];		/* their results */
	int first_end;			/* index of the first -1, or -1 */
	int fault;			/* vx_fault_kind, 0 = none */
} obs_t;

static uint64_t n_calls, n_bytes, n_minus1, n_faults;

static void run_parse(const char *s, int len, int mode, obs_t *out)
{
	volatile obs_t *o = out;
	int maxcalls = len + 2;
	o->n = 0; o->first_end = -1; o->fault = 0;
	if (VX_TRY) {
		int extra = 0;
		*CUR = mode == 1 ? POISON : s;
		for (;;) {
			int r, i = o->n;
			if (mode == 1) r = hex_get_byte(i == 0 ? s : NULL, CUR);
			else r = hex_get_byte(*CUR, CUR);
			o->v[i] = r; o->n = i + 1;
			if (o->first_end < 0) {
				if (r == -1) o->first_end = i;
				else if (i + 1 >= maxcalls) break;
			}
			if (o->first_end >= 0 && o->first_end != i && ++extra >= EXTRA) break;
		}
		VX_END;
	} else {
		VX_END;
		o->fault = vx_fault_kind;
		n_faults++;
	}
	n_calls += (uint64_t)out->n;
	for (int i = 0; i < out->n; i++) { if (out->v[i] == -1) n_minus1++; else n_bytes++; }
}

static const char *fault_name(int k)
{
	switch (k) {
	case VX_FAULT_ASSERT: return "fault:assert";
	case VX_FAULT_HANG: return "fault:hang";
	case SIGSEGV: return "fault:SIGSEGV";
	case SIGBUS: return "fault:SIGBUS";
	case SIGFPE: return "fault:SIGFPE";
	case SIGABRT: return "fault:SIGABRT";
	}
	return "fault:other";
}

/* the oracle for one parse run; exp == NULL: only the safety clauses */
static const char *judge(const obs_t *o, const int *exp, int m)
{
	if (o->fault) return fault_name(o->fault);
	for (int i = 0; i < o->n; i++) if (o->v[i] < -1 || o->v[i] > 255) return "range";
	if (o->first_end < 0) return "no-end";
	if (exp) {
		if (o->first_end != m) return "seq";
		for (int i = 0; i < m; i++) if (o->v[i] != exp[i]) return "seq";
	}
	for (int i = o->first_end + 1; i < o->n; i++) if (o->v[i] != -1) return "end-not-sticky";
	if (o->n != o->first_end + 1 + EXTRA) return "end-not-sticky";	/* cannot happen */
	return NULL;
}

/* ------------------------------------------------ reference grammar (part b) */

static int is_hex(int c) { return (c >= '0' && c <= '9') || (c >= 'a' && c <= 'f') || (c >= 'A' && c <= 'F'); }
static int hexval(int c) { return c <= '9' ? c - '0' : (c | 0x20) - 'a' + 10; }
static int is_ws(int c) { return c == ' ' || c == '\t' || c == '\r' || c == '\v' || c == '\f'; }

#define TF_ADDR   1		/* some line has an address prefix */
#define TF_MIXED  2		/* a line with pairs but without prefix precedes a line with prefix */
#define TF_PREFIX 4		/* some pair has 0x */
#define TF_UPPER  8		/* some pair has an upper-case digit */
#define TF_WS    16		/* white space present */

/* 1 if t[0..n) is a sequence of well-formed lines; the bytes it denotes -> exp[0..*m) */
static int ref_parse(const uint8_t *t, int n, int *exp, int *m, int *flags, int *nlines)
{
	int i = 0, fl = 0, plain_pairs = 0, lines = 0;
	*m = 0;
	while (i < n) {
		int e = i, c = -1, pairs = 0;
		while (e < n && t[e] != '\n') e++;
		if (e == n) return 0;			/* unterminated line */
		for (int k = i; k < e; k++) if (t[k] == ':') { c = k; break; }
		if (c >= 0) {
			int a0 = i;
			while (a0 < c && is_ws(t[a0])) { a0++; fl |= TF_WS; }	/* an indented address: white space is arbitrary */
			if (c == a0) return 0;
			for (int k = a0; k < c; k++) if (!is_hex(t[k])) return 0;
			i = c + 1; fl |= TF_ADDR;
			if (plain_pairs) fl |= TF_MIXED;
		}
		for (;;) {
			while (i < e && is_ws(t[i])) { i++; fl |= TF_WS; }
			if (i == e) break;
			if (t[i] == '0' && i + 1 < e && t[i + 1] == 'x') { i += 2; fl |= TF_PREFIX; }
			if (i + 1 < e && is_hex(t[i]) && is_hex(t[i + 1])) {
				if (isupper(t[i]) || isupper(t[i + 1])) fl |= TF_UPPER;
				exp[(*m)++] = hexval(t[i]) * 16 + hexval(t[i + 1]);
				i += 2; pairs++;
			} else
				return 0;
		}
		if (c < 0) plain_pairs += pairs;
		i = e + 1; lines++;
	}
	if (flags) *flags = fl;
	if (nlines) *nlines = lines;
	return 1;
}

/* ------------------------------------------------------------------- cases */

typedef struct {
	char part;			/* 'a', 'b', 'c' */
	int mode;			/* calling protocol 1 / 2 */
	int place;			/* 0 before a guard page, 1 after one (b, c) */
	int len, pos, val, bg;		/* (a): array length, position and value of the odd byte, background */
	uint8_t text[MAXT + 1]; int n;	/* (b), (c): the text; (a): filled in with the dump */
} case_t;

static const int bg_fill[] = { 0x00, 0x0f, 0xa0, 0xff, -1 /* ramp */ };
#define NBG 5
#define A_MAXLEN 49

static void a_array(const case_t *c, uint8_t *arr)
{
	for (int i = 0; i < c->len; i++) arr[i] = (uint8_t)(bg_fill[c->bg] >= 0 ? bg_fill[c->bg] : i * 37 + 11);
	if (c->len) arr[c->pos] = (uint8_t)c->val;
}

/* what the run of a case showed, for messages and the distinct count */
typedef struct { obs_t o; int exp[MAXT]; int m; int have_exp; int flags, nlines; int in_grammar; char detail[160]; } res_t;

static uint64_t n_dumps;

/* shape of the dump: lines of 16 two-digit lower-case pairs (the last one
 * shorter), the digits being those of the array. Blanks between pairs and a
 * missing final newline are tolerated: the statement does not exclude them. */
static const char *a_shape(const uint8_t *arr, int len, const char *txt, size_t sz, res_t *r)
{
	int pairs_total = 0, inline_digits = 0, line = 0, line_start = 0;
	for (size_t i = 0; i <= sz; i++) {
		int ch = i < sz ? (unsigned char)txt[i] : '\n';
		if (i == sz && inline_digits == 0) break;
		if (ch == '\n') {
			if (inline_digits & 1) { snprintf(r->detail, sizeof(r->detail), "line %d has an odd number of digits", line); return "dump-shape"; }
			int want = len - line_start; if (want > 16) want = 16; if (want < 0) want = 0;
			if (inline_digits / 2 != want && !(inline_digits == 0 && line_start >= len)) {
				snprintf(r->detail, sizeof(r->detail), "line %d has %d pairs, expected %d", line, inline_digits / 2, want);
				return "dump-shape";
			}
			line++; inline_digits = 0; line_start = pairs_total;
		} else if (ch == ' ' || ch == '\t') {
			;
		} else if ((ch >= '0' && ch <= '9') || (ch >= 'a' && ch <= 'f')) {
			int k = pairs_total;
			if (k < len) {
				int d = (inline_digits & 1) ? arr[k] & 15 : arr[k] >> 4;
				if (hexval(ch) != d) {
					snprintf(r->detail, sizeof(r->detail), "digit %d of byte %d is '%c', byte is 0x%02x", inline_digits & 1, k, ch, arr[k]);
					return "dump-digits";
				}
			}
			inline_digits++;
			if (!(inline_digits & 1)) pairs_total++;
		} else {
			snprintf(r->detail, sizeof(r->detail), "character 0x%02x at offset %zu is not a lower-case hex digit", ch, i);
			return "dump-shape";
		}
	}
	if (pairs_total != len) { snprintf(r->detail, sizeof(r->detail), "%d pairs for %d bytes", pairs_total, len); return "dump-shape"; }
	return NULL;
}

/* run one case completely; returns the failure kind or NULL (passes, or a (b)
 * text outside the grammar / outside the scope of mode 2) */
static const char *eval_case(case_t *c, res_t *r)
{
	const char *k;
	r->have_exp = 0; r->detail[0] = 0; r->o.n = 0; r->o.fault = 0; r->o.first_end = -1; r->flags = 0;
	if (c->part == 'a') {
		uint8_t *arr = AR_END - c->len;
		char *buf = NULL; size_t sz = 0;
		volatile int fault = 0;
		a_array(c, arr);
		FILE *f = open_memstream(&buf, &sz);
		if (!f) { perror("open_memstream"); _exit(3); }
		n_dumps++;
		if (VX_TRY) { hex_dump_to_file(f, arr, (size_t)c->len); VX_END; }
		else { VX_END; fault = vx_fault_kind; n_faults++; }
		if (fault) { snprintf(r->detail, sizeof(r->detail), "hex_dump_to_file: %.120s", vx_fault_msg); return fault_name(fault); }
		fclose(f);
		if (sz > MAXT || strlen(buf) != sz) {
			snprintf(r->detail, sizeof(r->detail), "dump is %zu bytes long (NUL at %zu)", sz, strlen(buf));
			c->n = 0; free(buf); return "dump-shape";
		}
		memcpy(c->text, buf, sz); c->n = (int)sz; c->text[sz] = 0;
		k = a_shape(arr, c->len, buf, sz, r);
		free(buf);
		if (k) return k;
		for (int i = 0; i < c->len; i++) r->exp[i] = arr[i];
		r->m = c->len; r->have_exp = 1;
		run_parse(place_text(c->text, c->n, 0), c->n, c->mode, &r->o);
		k = judge(&r->o, r->exp, r->m);
		if (k && !strncmp(k, "fault", 5)) snprintf(r->detail, sizeof(r->detail), "hex_get_byte: %.120s", vx_fault_msg);
		return k;
	}
	if (c->part == 'b') {
		r->in_grammar = ref_parse(c->text, c->n, r->exp, &r->m, &r->flags, &r->nlines);
		if (!r->in_grammar) return NULL;
		if (c->mode == 2 && (r->flags & TF_ADDR)) return NULL;
		r->have_exp = 1;
		run_parse(place_text(c->text, c->n, c->place), c->n, c->mode, &r->o);
		k = judge(&r->o, r->exp, r->m);
		if (k && !strncmp(k, "fault", 5)) snprintf(r->detail, sizeof(r->detail), "hex_get_byte: %.120s", vx_fault_msg);
		return k;
	}
	run_parse(place_text(c->text, c->n, c->place), c->n, c->mode, &r->o);
	k = judge(&r->o, NULL, 0);
	if (k && !strncmp(k, "fault", 5)) snprintf(r->detail, sizeof(r->detail), "hex_get_byte: %.120s", vx_fault_msg);
	return k;
}

/* ------------------------------------------------------------- minimisation */

static uint64_t n_min_evals;

static int still_fails(case_t *c, const char *kind)
{
	res_t r;
	n_min_evals++;
	const char *k = eval_case(c, &r);
	return k && !strcmp(k, kind);
}

static void minimise(case_t *c, const char *kind)
{
	int changed = 1;
	case_t t;
	while (changed) {
		changed = 0;
		if (c->mode == 2) { t = *c; t.mode = 1; if (still_fails(&t, kind)) { *c = t; changed = 1; } }
		if (c->place == 1) { t = *c; t.place = 0; if (still_fails(&t, kind)) { *c = t; changed = 1; } }
		if (c->part == 'a') {
			for (int b = 0; b < c->bg; b++) { t = *c; t.bg = b; if (still_fails(&t, kind)) { *c = t; changed = 1; break; } }
			for (int v = 0; v < c->val; v++) { t = *c; t.val = v; if (still_fails(&t, kind)) { *c = t; changed = 1; break; } }
			for (int l = c->len ? c->pos + 1 : 0; l < c->len; l++) { t = *c; t.len = l; if (still_fails(&t, kind)) { *c = t; changed = 1; break; } }
			if (c->len > 0) { t = *c; t.len = 0; t.pos = 0; t.val = 0; t.bg = 0; if (still_fails(&t, kind)) { *c = t; changed = 1; } }
			for (int p = 0; p < c->pos; p++) { t = *c; t.pos = p; if (still_fails(&t, kind)) { *c = t; changed = 1; break; } }
			/* shorter array with the odd byte moved down */
			for (int l = 1; l < c->len && !changed; l++)
				for (int p = 0; p < l && p <= c->pos; p++) { t = *c; t.len = l; t.pos = p; if (still_fails(&t, kind)) { *c = t; changed = 1; break; } }
			continue;
		}
		/* delete substrings, longest first */
		for (int w = 4; w >= 1; w--)
			for (int i = 0; i + w <= c->n; ) {
				t = *c;
				memmove(t.text + i, t.text + i + w, (size_t)(t.n - i - w));
				t.n -= w; t.text[t.n] = 0;
				if (still_fails(&t, kind)) { *c = t; changed = 1; } else i++;
			}
		/* canonical characters: lower case, digit 0, blank */
		for (int i = 0; i < c->n; i++) {
			int ch = c->text[i], alt[5], na = 0;
			if (is_hex(ch) && ch != '0') alt[na++] = '0';
			if (ch >= 'A' && ch <= 'F') alt[na++] = ch | 0x20;
			if (ch > '1' && ch <= '9') alt[na++] = '1';
			if (ch > 'a' && ch <= 'f') alt[na++] = 'a';
			if (ch > 'A' && ch <= 'F') alt[na++] = 'A';
			if (is_ws(ch) && ch != ' ') alt[na++] = ' ';
			for (int a = 0; a < na; a++) {
				t = *c; t.text[i] = (uint8_t)alt[a];
				if (still_fails(&t, kind)) { *c = t; changed = 1; break; }
			}
		}
	}
}

/* ------------------------------------------------------- violation reporting */

static const uint8_t c_alpha[9] = { '0', 'a', 'F', 'x', ':', ' ', '\n', 'z', 0x80 };

static void esc_text(vx_sb *sb, const uint8_t *t, int n)
{
	vx_sb_printf(sb, "\"");
	for (int i = 0; i < n; i++) {
		int ch = t[i];
		if (ch == '\n') vx_sb_printf(sb, "\\n");
		else if (ch == '\t') vx_sb_printf(sb, "\\t");
		else if (ch == '\r') vx_sb_printf(sb, "\\r");
		else if (ch == '"' || ch == '\\') vx_sb_printf(sb, "\\%c", ch);
		else if (ch < 0x20 || ch >= 0x7f) vx_sb_printf(sb, "\\x%02x", ch);
		else vx_sb_printf(sb, "%c", ch);
	}
	vx_sb_printf(sb, "\"");
}
static void seq_text(vx_sb *sb, const int *v, int n)
{
	vx_sb_printf(sb, "[");
	for (int i = 0; i < n; i++) {
		if (v[i] >= 0 && v[i] <= 255) vx_sb_printf(sb, "%s%02x", i ? " " : "", v[i]);
		else vx_sb_printf(sb, "%s%d", i ? " " : "", v[i]);
	}
	vx_sb_printf(sb, "]");
}
static void describe_case(vx_sb *sb, const case_t *c)
{
	if (c->part == 'a') {
		if (c->len == 0) vx_sb_printf(sb, "len=0 mode=%d", c->mode);
		else if (bg_fill[c->bg] >= 0) vx_sb_printf(sb, "len=%d pos=%d val=0x%02x bg=0x%02x mode=%d", c->len, c->pos, c->val, bg_fill[c->bg], c->mode);
		else vx_sb_printf(sb, "len=%d pos=%d val=0x%02x bg=ramp mode=%d", c->len, c->pos, c->val, c->mode);
	} else {
		vx_sb_printf(sb, "mode=%d ", c->mode);
		if (c->part == 'c' || c->place) vx_sb_printf(sb, "place=%s ", c->place ? "after-guard" : "before-guard");
		vx_sb_printf(sb, "text=");
		esc_text(sb, c->text, c->n);
	}
}
static void replay_text(vx_sb *sb, const case_t *c)
{
	vx_sb_printf(sb, "part=%c\nmode=%d\nplace=%d\n", c->part, c->mode, c->place);
	if (c->part == 'a') vx_sb_printf(sb, "len=%d\npos=%d\nval=%d\nbg=%d\n", c->len, c->pos, c->val, c->bg);
	else {
		vx_sb_printf(sb, "hex=");
		for (int i = 0; i < c->n; i++) vx_sb_printf(sb, "%02x", c->text[i]);
		vx_sb_printf(sb, "\n");
	}
}

/* Only the first MIN_PER_CLASS failing cases of every (part, kind, class) are
 * minimised and can create a signature; later ones of the same class are
 * counted under the last signature of that class. The class is a cheap
 * description of the failing input (which token kinds / characters it has), so
 * that a defect showing only in another sort of input is never just counted
 * under the signature of an already known one. */
#define MIN_PER_CLASS 6
#define NSLOTS 16384
static struct kslot { uint64_t key; int nmin; char *lastsig; } kslots[NSLOTS];
static int nkslots;
static int replaying;
static uint64_t b_fail_mixed, b_fail_other;

static uint64_t case_class(const case_t *c)
{
	uint64_t k = (uint64_t)(c->mode - 1);
	if (c->part == 'a') {
		int l = c->len, bucket = l == 0 ? 0 : l < 16 ? 1 : l == 16 ? 2 : l < 32 ? 3 : l == 32 ? 4 : l < 48 ? 5 : l == 48 ? 6 : 7;
		return k | (uint64_t)c->bg << 1 | (uint64_t)bucket << 4;
	}
	if (c->part == 'b') {
		int exp[MAXT], m, fl = 0, nl = 0;
		ref_parse(c->text, c->n, exp, &m, &fl, &nl);
		if (fl & TF_MIXED) b_fail_mixed++; else b_fail_other++;
		return k | (uint64_t)fl << 1 | (uint64_t)(nl >= 2) << 8;
	}
	uint64_t mask = 0;
	for (int i = 0; i < c->n; i++) for (int a = 0; a < 9; a++) if (c->text[i] == c_alpha[a]) mask |= 1u << a;
	return k | (uint64_t)c->place << 1 | mask << 2;
}

static void report(const case_t *c0, const char *kind)
{
	vx_hasher h; vx_h_init(&h);
	vx_h_u64(&h, (uint64_t)c0->part); vx_h_bytes(&h, kind, strlen(kind)); vx_h_u64(&h, case_class(c0));
	uint64_t key = vx_h_done(&h).a | 1;
	struct kslot *ks;
	for (uint64_t i = key % NSLOTS; ; i = (i + 1) % NSLOTS) {
		ks = &kslots[i];
		if (ks->key == key) break;
		if (!ks->key) { if (nkslots >= NSLOTS / 2) return; nkslots++; ks->key = key; break; }
	}
	if (ks->nmin >= MIN_PER_CLASS && ks->lastsig) { vx_violation(ks->lastsig, "", "(counted only)"); return; }
	case_t c = *c0;
	res_t r;
	if (!replaying) minimise(&c, kind);
	ks->nmin++;
	const char *k = eval_case(&c, &r);
	if (!k || strcmp(k, kind)) {	/* not deterministic: keep the case as found */
		vx_note("a minimised case did not fail again; reported unminimised");
		c = *c0; k = eval_case(&c, &r);
		if (!k || strcmp(k, kind)) { vx_note("a failing case did not fail again when re-run (%s)", kind); return; }
	}
	vx_sb sig = {0}, rep = {0}, msg = {0};
	vx_sb_printf(&sig, "C18%c|%s|", c.part, kind);
	describe_case(&sig, &c);
	replay_text(&rep, &c);
	if (c.part == 'a') { vx_sb_printf(&msg, "dump text "); esc_text(&msg, c.text, c.n); vx_sb_printf(&msg, "; "); }
	if (r.detail[0]) vx_sb_printf(&msg, "%s; ", r.detail);
	if (r.have_exp) { vx_sb_printf(&msg, "expected bytes "); seq_text(&msg, r.exp, r.m); vx_sb_printf(&msg, " then -1; "); }
	vx_sb_printf(&msg, "hex_get_byte returned "); seq_text(&msg, r.o.v, r.o.n);
	if (!strcmp(kind, "no-end")) vx_sb_printf(&msg, " (no -1 within len+2 = %d calls)", c.n + 2);
	vx_violation(sig.s, rep.s, "%s: %s", kind, msg.s);
	free(ks->lastsig); ks->lastsig = sig.s;
	free(rep.s); free(msg.s);
}

/* -------------------------------------------------- counting what was seen */

static vx_set seen_all, seen_own;
static uint64_t n_eval, n_trivial_obs;

static void account(const case_t *c, const res_t *r)
{
	vx_hasher h; vx_h_init(&h);
	int nontrivial = 0;
	n_eval++;
	vx_h_u64(&h, (uint64_t)c->part);
	vx_h_u64(&h, (uint64_t)r->o.fault);
	for (int i = 0; i < r->o.n; i++) { vx_h_u64(&h, (uint64_t)(int64_t)r->o.v[i]); if (r->o.v[i] != -1) nontrivial = 1; }
	if (c->part == 'a') { vx_h_bytes(&h, c->text, (size_t)c->n); if (c->n) nontrivial = 1; }
	if (!nontrivial) { n_trivial_obs++; return; }
	vx_h128 k = vx_h_done(&h);
	vx_set_add(&seen_all, k);
	/* (a) is partitioned by array length and the dump text is part of the tuple: its tuples cannot
	 * recur in another worker, so they are all owned here */
	if (c->part == 'a' || (int)(k.b % (uint64_t)vx_args.nworkers) == vx_args.worker) vx_set_add(&seen_own, k);
}

/* evaluate, account, report; returns 1 on a violation */
static int do_case(case_t *c, res_t *r)
{
	const char *k = eval_case(c, r);
	account(c, r);
	if (k) { report(c, k); return 1; }
	return 0;
}

static void sample_case(const case_t *c, const res_t *r)
{
	if (!vx_want_sample()) return;
	vx_sb sb = {0};
	vx_sb_printf(&sb, "(%c) ", c->part);
	describe_case(&sb, c);
	if (c->part == 'a') { vx_sb_printf(&sb, " dump="); esc_text(&sb, c->text, c->n); }
	vx_sb_printf(&sb, " -> ");
	seq_text(&sb, r->o.v, r->o.n);
	vx_sample("%s", sb.s);
	free(sb.s);
}

/* A part is abandoned (and the run reported as not exhaustive) at the deadline
 * or when it has already produced FAULT_CAP faults in this worker: a caught
 * signal costs ~10 us and a tree on which nearly every call faults would
 * otherwise need hours to say the same thing again. */
#define FAULT_CAP 20000
static uint64_t part_fault_base;
static void part_begin(void) { part_fault_base = n_faults; }
static int must_stop(char part)
{
	if (vx_deadline_passed()) { vx_note("part (%c) stopped at the deadline", part); return 1; }
	if (n_faults - part_fault_base > FAULT_CAP) {
		vx_note("part (%c) abandoned after more than %d faults in one worker; run is not exhaustive", part, FAULT_CAP);
		return 1;
	}
	return 0;
}

/* ---------------------------------------------------------------- part (a) */

static int part_a(void)
{
	case_t c; res_t r;
	memset(&c, 0, sizeof(c)); c.part = 'a';
	part_begin();
	uint64_t na = 0;
	for (int len = 0; len <= A_MAXLEN; len++) {
		if (!vx_mine((uint64_t)len)) continue;
		if (must_stop('a')) { vx_count("a_arrays", na); vx_count("a_evaluations", 2 * na); return 0; }
		c.len = len;
		for (int pos = 0; pos < (len ? len : 1); pos++)
			for (int val = 0; val < (len ? 256 : 1); val++)
				for (int bg = 0; bg < (len ? NBG : 1); bg++) {
					c.pos = pos; c.val = val; c.bg = bg;
					na++;
					for (c.mode = 1; c.mode <= 2; c.mode++) do_case(&c, &r);
					if ((len == 0 || (len == 17 && pos == 16 && val == 0x5a && bg == 3) ||
					     (len == 49 && pos == 31 && val == 0xc3 && bg == 4)) ) { c.mode = 1; eval_case(&c, &r); sample_case(&c, &r); }
				}
		vx_count("a_lengths_done", 1);
	}
	vx_count("a_arrays", na); vx_count("a_evaluations", 2 * na);
	return 1;
}

/* ---------------------------------------------------------------- part (b) */

typedef struct { uint8_t len; char s[39]; } line_t;
static line_t *lines; static int nlines_pool, cap_lines;

static const char *b_ws[3] = { "", " ", "\t" };
static const char *b_trail[2] = { "", " \t\r" };
static const char *b_addr[3] = { "", "10:", "0fA0:" };
static const char *b_val[3] = { "0a", "F9", "bC" };
static int b_nws, b_ntrail, b_naddr, b_nval;

static void add_line(const char *body, const char *trail)
{
	if (nlines_pool == cap_lines) { cap_lines = cap_lines ? cap_lines * 2 : 4096; lines = realloc(lines, (size_t)cap_lines * sizeof(line_t)); }
	line_t *l = &lines[nlines_pool++];
	int n = snprintf(l->s, sizeof(l->s), "%s%s\n", body, trail);
	if (n >= (int)sizeof(l->s)) { fprintf(stderr, "c18: line too long\n"); _exit(6); }
	l->len = (uint8_t)n;
}
static void gen_pairs(char *body, int blen, int npairs)
{
	for (int t = 0; t < b_ntrail; t++) { body[blen] = 0; add_line(body, b_trail[t]); }
	if (npairs == 3) return;
	for (int w = 0; w < b_nws; w++)
		for (int p = 0; p < 2; p++)
			for (int v = 0; v < b_nval; v++) {
				int n = blen + sprintf(body + blen, "%s%s%s", b_ws[w], p ? "0x" : "", b_val[v]);
				gen_pairs(body, n, npairs + 1);
			}
}
static void gen_lines(void)
{
	char body[64];
	b_nws = b_naddr = 3;
	b_nval = vx_thorough() ? 3 : 2;
	b_ntrail = 2;
	for (int a = 0; a < b_naddr; a++) { int n = sprintf(body, "%s", b_addr[a]); gen_pairs(body, n, 0); }
}

static uint64_t bc_texts, bc_two, bc_addr, bc_mixed, bc_prefix, bc_upper, bc_ws, bc_evals, bc_mode2_skipped;

static void b_run(case_t *c, res_t *r)
{
	c->mode = 1; c->place = 0;
	do_case(c, r);
	if (!r->in_grammar) { fprintf(stderr, "c18: generator left the grammar\n"); _exit(6); }
	int fl = r->flags;
	bc_texts++; bc_evals++;
	if (r->nlines == 2) bc_two++;
	if (fl & TF_ADDR) bc_addr++;
	if (fl & TF_MIXED) bc_mixed++;
	if (fl & TF_PREFIX) bc_prefix++;
	if (fl & TF_UPPER) bc_upper++;
	if (fl & TF_WS) bc_ws++;
	if (fl & TF_ADDR) { bc_mode2_skipped++; return; }
	c->mode = 2;
	do_case(c, r);
	bc_evals++;
}

static const char hexchars[] = "0123456789abcdefABCDEF";

static void b_flush(void)
{
	vx_count("b_texts", bc_texts); vx_count("b_evaluations", bc_evals);
	vx_count("b_texts_two_lines", bc_two); vx_count("b_texts_with_address_prefix", bc_addr);
	vx_count("b_texts_plain_line_before_prefixed_line", bc_mixed); vx_count("b_texts_with_0x", bc_prefix);
	vx_count("b_texts_with_upper_case", bc_upper); vx_count("b_texts_with_white_space", bc_ws);
	vx_count("b_mode2_skipped_address_prefix", bc_mode2_skipped);
}

static int part_b(void)
{
	case_t c; res_t r;
	memset(&c, 0, sizeof(c)); c.part = 'b';
	part_begin();
	gen_lines();
	if (vx_args.worker == 0) vx_count("b_line_pool", (uint64_t)nlines_pool);
	/* the empty text: zero lines */
	if (vx_mine(0)) { c.n = 0; c.text[0] = 0; b_run(&c, &r); }
	/* sweep: every two-character hex pair, alone, prefixed, after an address, next to a second pair */
	for (int h = 0; h < 22 * 22; h++) {
		if (!vx_mine((uint64_t)h)) continue;
		char a[3] = { hexchars[h / 22], hexchars[h % 22], 0 };
		static const char *fmt1[] = { "%s\n", "0x%s\n", "10: %s\n", " 0x%s \n", "%s\n\n", "\n%s\n" };
		for (unsigned f = 0; f < sizeof(fmt1) / sizeof(fmt1[0]); f++) {
			c.n = sprintf((char *)c.text, fmt1[f], a); b_run(&c, &r);
		}
		for (int g = 0; g < 22 * 22; g++) {
			char b[3] = { hexchars[g / 22], hexchars[g % 22], 0 };
			c.n = sprintf((char *)c.text, "%s%s\n", a, b); b_run(&c, &r);
			c.n = sprintf((char *)c.text, "%s 0x%s\n", a, b); b_run(&c, &r);
		}
		vx_count("b_sweep_pairs_done", 1);
	}
	/* "arbitrary white space": every kind of C white space other than blank and tab as a separator, in every position */
	{
		static const char *xw[] = { "\r", "\v", "\f", " \r", "\r ", "\t\f", "\r\v", "\f\r\v" };
		static const char *xfmt[] = { "%s%s%s\n", "%s%s0x%s\n", "%.0s%s%s\n", "10:%.0s%s%s\n", "10: %s%s%s\n", "%s%s%.0s\n", "%s%s%s\n0a\n", "F9\n%s%s%s\n", "%s%s%s%2$s%1$s\n" };
		static const char *xv[] = { "0a", "F9" };
		int k = 0;
		for (unsigned w = 0; w < sizeof(xw) / sizeof(xw[0]); w++)
			for (unsigned f = 0; f < sizeof(xfmt) / sizeof(xfmt[0]); f++)
				for (int a = 0; a < 2; a++) for (int b = 0; b < 2; b++, k++) {
					if (!vx_mine((uint64_t)k)) continue;
					c.n = sprintf((char *)c.text, xfmt[f], xv[a], xw[w], xv[b]);
					b_run(&c, &r);
					vx_count("b_texts_with_cr_vt_ff_separators", 1);
				}
	}
	/* address prefixes that are indented, on the first and on later lines, after blank lines */
	{
		static const char *ifmt[] = { " 10: %s\n", "\t0fA0:%s %s\n", "%s\n 10: %s\n", "%s\n\t0fA0: %s\n", "10: %s\n  20: %s\n", "%s\n\n 10: %s\n",
					      "10: %s\n \t 20:%s\n", " 10: %s\n 20: %s\n", "%s\n \n 10: 0x%s\n",
					      /* addresses of every width up to 24 digits (64-bit addresses are 16; nothing limits the width) */
					      "0000000000400000: %s %s\n", "00000000004000000: %s\n%s\n", "000000000000000000400000: %s\n0123456789abcdefA: %s\n",
					      "%s\n  0000000000400010: %s\n", "0123456789abcdef0123: 0x%s %s\n" };
		static const char *iv[] = { "0a", "F9", "73" };
		int k = 0;
		for (unsigned f = 0; f < sizeof(ifmt) / sizeof(ifmt[0]); f++)
			for (int a = 0; a < 3; a++) for (int b = 0; b < 3; b++, k++) {
				if (!vx_mine((uint64_t)k)) continue;
				c.n = sprintf((char *)c.text, ifmt[f], iv[a], iv[b]);
				b_run(&c, &r);
				vx_count("b_texts_with_indented_address", 1);
			}
	}
	/* all single lines and all ordered pairs of lines from the pool */
	for (int i = 0; i < nlines_pool; i++) {
		if (!vx_mine((uint64_t)i)) continue;
		if (must_stop('b')) { b_flush(); return 0; }
		memcpy(c.text, lines[i].s, lines[i].len); c.n = lines[i].len; c.text[c.n] = 0;
		b_run(&c, &r);
		if (i == 777 || i == nlines_pool - 1) { c.mode = 1; eval_case(&c, &r); sample_case(&c, &r); }
		for (int j = 0; j < nlines_pool; j++) {
			c.n = lines[i].len;
			memcpy(c.text + c.n, lines[j].s, lines[j].len); c.n += lines[j].len; c.text[c.n] = 0;
			b_run(&c, &r);
			if (i == nlines_pool - 1 && j == 1234 % nlines_pool) { c.mode = 1; eval_case(&c, &r); sample_case(&c, &r); }
		}
		vx_count("b_first_lines_done", 1);
	}
	b_flush();
	return 1;
}

/* ---------------------------------------------------------------- part (c) */

#define C_BLOCK 729

static uint64_t cc_strings, cc_bytes;
static void c_flush(void)
{
	vx_count("c_strings", cc_strings); vx_count("c_evaluations", 4 * cc_strings); vx_count("c_strings_yielding_bytes", cc_bytes);
}

static int part_c(int *len_done)
{
	case_t c; res_t r;
	memset(&c, 0, sizeof(c)); c.part = 'c';
	part_begin();
	int maxlen = vx_thorough() ? 8 : 7, csamples = 0;
	uint64_t block = 0;
	*len_done = -1;
	for (int n = 0; n <= maxlen; n++) {
		uint64_t total = 1;
		for (int i = 0; i < n; i++) total *= 9;
		for (uint64_t base = 0; base < total; base += C_BLOCK, block++) {
			if (!vx_mine(block)) continue;
			if (must_stop('c')) { c_flush(); return 0; }
			uint64_t end = base + C_BLOCK < total ? base + C_BLOCK : total;
			for (uint64_t idx = base; idx < end; idx++) {
				uint64_t x = idx;
				for (int i = n - 1; i >= 0; i--) { c.text[i] = c_alpha[x % 9]; x /= 9; }
				c.text[n] = 0; c.n = n;
				int bytes = 0;
				for (c.place = 0; c.place <= 1; c.place++)
					for (c.mode = 1; c.mode <= 2; c.mode++) {
						do_case(&c, &r);
						if (r.o.first_end > 0) bytes = 1;
					}
				cc_strings++;
				if (bytes) cc_bytes++;
				if (n == maxlen && csamples < 2 && (idx % 1000003 == 0 || (idx > total / 2 && r.o.first_end >= 2 && idx % 7 == 3))) { csamples++; c.place = 1; c.mode = 1; eval_case(&c, &r); sample_case(&c, &r); }
			}
		}
		*len_done = n;
	}
	c_flush();
	return 1;
}

/* -------------------------------------------------------------------- main */


static void do_replay(const char *rp)
{
	case_t c; res_t r;
	const char *f;
	memset(&c, 0, sizeof(c));
	replaying = 1;
	f = vx_replay_field(rp, "part"); c.part = f ? f[0] : 0;
	f = vx_replay_field(rp, "mode"); c.mode = f ? atoi(f) : 1;
	f = vx_replay_field(rp, "place"); c.place = f ? atoi(f) : 0;
	if (c.part == 'a') {
		f = vx_replay_field(rp, "len"); c.len = f ? atoi(f) : 0;
		f = vx_replay_field(rp, "pos"); c.pos = f ? atoi(f) : 0;
		f = vx_replay_field(rp, "val"); c.val = f ? atoi(f) : 0;
		f = vx_replay_field(rp, "bg"); c.bg = f ? atoi(f) : 0;
		if (c.len < 0 || c.len > A_MAXLEN || c.pos < 0 || (c.len && c.pos >= c.len) || c.bg < 0 || c.bg >= NBG) { fprintf(stderr, "c18: bad replay\n"); _exit(3); }
	} else if (c.part == 'b' || c.part == 'c') {
		/* the text can be longer than vx_replay_field's buffer: parse it here */
		const char *p = strstr(rp, "\nhex=");
		if (!p) { fprintf(stderr, "c18: bad replay (no hex=)\n"); _exit(3); }
		p += 5;
		while (isxdigit((unsigned char)p[0]) && isxdigit((unsigned char)p[1]) && c.n < MAXT) {
			c.text[c.n++] = (uint8_t)(hexval(p[0]) * 16 + hexval(p[1])); p += 2;
		}
		c.text[c.n] = 0;
	} else { fprintf(stderr, "c18: bad replay (part)\n"); _exit(3); }
	if (c.mode != 1 && c.mode != 2) { fprintf(stderr, "c18: bad replay (mode)\n"); _exit(3); }
	const char *k = eval_case(&c, &r);
	vx_count("evaluations", 1);
	if (k) report(&c, k);
	else {
		vx_sb sb = {0}; describe_case(&sb, &c);
		vx_note("replayed case passes: (%c) %s", c.part, sb.s); free(sb.s);
	}
}

int main(int argc, char **argv)
{
	vx_init(argc, argv);
	vx_install_handlers();
	vx_watchdog(2.0);
	mem_setup();
	vx_set_init(&seen_all, 14); vx_set_init(&seen_own, 12);
	char *rp = vx_read_replay();
	if (rp) { do_replay(rp); vx_finish(); return 0; }

	int len_done = -1;
	int a_ok = part_a();
	int b_ok = part_b();
	int c_ok = part_c(&len_done);
	vx_and("exhaustive", a_ok && b_ok && c_ok);
	vx_and("a_complete", a_ok); vx_and("b_complete", b_ok); vx_and("c_complete", c_ok);
	vx_min("c_max_len_complete", (uint64_t)(len_done < 0 ? 0 : len_done));
	vx_count("evaluations", n_eval);
	vx_count("distinct", seen_own.n);
	vx_count("distinct_upper_bound_sum_per_worker", seen_all.n);
	vx_max("distinct_seen_by_one_worker_max", seen_all.n);
	vx_count("evaluations_trivial_observation_only_minus1", n_trivial_obs);
	vx_count("calls_hex_get_byte", n_calls);
	vx_count("calls_hex_dump_to_file", n_dumps);
	vx_count("results_byte", n_bytes);
	vx_count("results_minus1", n_minus1);
	vx_count("faults_caught", n_faults);
	vx_count("minimiser_evaluations", n_min_evals);
	vx_count("b_failing_evaluations_plain_line_before_prefixed_line", b_fail_mixed);
	vx_count("b_failing_evaluations_other_texts", b_fail_other);
	vx_count("failure_classes_seen", (uint64_t)nkslots);
	vx_note("distinct = observation tuples (part, fault, full sequence of hex_get_byte results [, dump text]) with at least one "
		"returned byte or dumped character; tuples of (b) and (c) are counted only by the worker owning their hash ((a) tuples are unique to the worker "
		"that has the array length), so the figure is a lower bound of the global count (distinct_upper_bound_sum_per_worker is the upper bound)");
	vx_finish();
	return 0;
}

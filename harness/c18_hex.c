/*
 * C18 - hex dump output parses back to the same bytes; the parser is safe on
 * any text (librfn/hex.c).
 *
 * hex.c is linked as an object of its own (lib=['hex.c'] in checks.d/C18.py):
 * nothing here shares a translation unit with it, only <librfn/hex.h> is
 * included, and whatever hex.c keeps in statics is reset before every case.
 *
 * Engine C (bounded-exhaustive enumeration), five families:
 *  (a) dump -> parse.  a1: byte arrays of length 0..49, every byte value at
 *      every position over 6 backgrounds.  a2: lengths on both sides of the
 *      powers of two an index or a length could be narrowed to (2^6 .. 2^9, 2^12;
 *      thorough adds 2^10, 2^15, 2^16) and of the next multiple of 16, all
 *      backgrounds (two of them with a period that is not a power of two), the
 *      odd byte at the positions next to those boundaries, 10 boundary values.
 *      hex_dump_to_file() writes into a bounded sink, the text must be lines of
 *      16 lower-case pairs, and is parsed back with hex_get_byte().
 *  (b) well-formed text: every text of the grammar
 *          line := [ws* hexdigit+ ':'] (ws* ["0x"] hex hex)* ws* '\n'
 *      built from finite token alphabets (white-space tokens include repeated
 *      blanks and tabs), 1 and 2 lines, up to 3 pairs a line, plus sweeps over all
 *      22x22 two-character hex pairs, CR/VT/FF and repeated separators in every
 *      position, indented and wide addresses. The expected bytes come from an
 *      independent reference parser of that grammar.
 *  (c) arbitrary text: ALL strings of length <= 7 (quick) / <= 8 (thorough)
 *      over { 0 a F x : ' ' '\n' z 0x80 }, and ALL strings of length <= 4 / <= 5
 *      over a 28-character alphabet holding every character a libc number parser
 *      or a sloppy range test treats specially (signs, x X, the neighbours of the
 *      hex ranges, high bytes that alias hex digits or white space when masked or
 *      sign-extended).
 *  (d) byte sweep: short templates in which one position takes all 256 byte
 *      values and every pair of positions all 256 x 256 combinations.
 *  (e) long texts: white-space runs, blank lines, lines, pairs per line, address
 *      digits and prefixed lines in numbers on both sides of 2^7 and 2^8
 *      (thorough: 2^15, 2^16).
 * Every text of (b)..(e) is placed with the NUL as the last byte before a
 * PROT_NONE page and ((c), (d)) again starting right after one; the safety
 * clauses (range, termination, sticky -1, no fault) are judged on every text and
 * the returned bytes on every text that the reference grammar accepts.
 *
 * hex_get_byte(s, &p) keeps its cursor in the caller's variable *p: the first
 * call passes the text, later calls pass s == NULL and resume from *p; at the
 * end *p becomes NULL. Two calling protocols are driven:
 *   mode 1: hex_get_byte(text, &p), then hex_get_byte(NULL, &p) ...   (resume);
 *           before the first call *p points to a readable decoy string
 *   mode 2: hex_get_byte(cur, &cur) on every call (what tests/hextest.c does);
 *           here every call is a "first" call; mode 2 is only value-checked on
 *           texts without an address prefix.
 *
 * A failing case is minimised (deterministic greedy deletion/canonicalisation
 * that keeps the same failure kind, with a deterministic work budget) and the
 * signature is
 *      C18<part>|<kind>|<minimal case>
 * so one root cause gives one or very few signatures.
 */
#include "vx.h"

#include <ctype.h>
#include <stddef.h>
#include <stdio_ext.h>

#include <librfn/hex.h>

#define MAXT 200000			/* longest text handled */
#define EXTRA 3				/* calls made after the first -1 */
#define MAXCALLS (MAXT + 2 + EXTRA)
#define GSIZE ((MAXT + 2 + 4095) / 4096 * 4096)
#define A_MAXBYTES 65537		/* longest array dumped */
#define ARSIZE ((A_MAXBYTES + 4095) / 4096 * 4096)
#define HANG_CAP 3			/* a worker stops enumerating after this many watchdog hits */

/* ------------------------------------------------------------ guarded memory */

static uint8_t *GR_END;			/* one past the last accessible byte before a guard page */
static uint8_t *GL_BASE;		/* first accessible byte after a guard page */
static uint8_t *AR_END;			/* like GR_END, for the byte array of part (a) */
static const char **CUR;		/* the caller's cursor variable, itself flush against a guard page */
static const char *DECOY;		/* what *p points to before the first call of mode 1: readable, and hex pairs
					 * that no case expects, so that using it shows */
static int left_dirty;

static void mem_setup(void)
{
	static const char decoy[16] = "7e 7e 7e 7e 7e\n";
	char *d;
	GR_END = (uint8_t *)vx_guard_alloc(GSIZE, 1) + GSIZE;
	GL_BASE = vx_guard_alloc(GSIZE, 0);
	AR_END = (uint8_t *)vx_guard_alloc(ARSIZE, 1) + ARSIZE;
	CUR = vx_guard_alloc(sizeof(*CUR), 1);
	d = vx_guard_alloc(sizeof(decoy), 1);
	memcpy(d, decoy, sizeof(decoy));
	DECOY = d;
	memset(GL_BASE, '3', GSIZE);
	memset(GR_END - GSIZE, '3', GSIZE);
}

/* place == 0: the NUL is the last accessible byte; place == 1: the first
 * character is the first accessible byte (what follows the NUL is filled with
 * hex digits so that running over the NUL would be seen as extra bytes) */
static const char *place_text(const uint8_t *t, int n, int place)
{
	uint8_t *d;
	if (place) {
		d = GL_BASE;
		if (left_dirty > n) memset(d + n + 1, '3', (size_t)(left_dirty - n));
		left_dirty = n;
	} else
		d = GR_END - (n + 1);
	memcpy(d, t, (size_t)n);
	d[n] = 0;
	return (const char *)d;
}

/* ------------------------------------------------------- running the parser */

typedef struct {
	int n;				/* calls made */
	int first_end;			/* index of the first -1, or -1 */
	int fault;			/* vx_fault_kind, 0 = none */
	int v[MAXCALLS];		/* their results */
} obs_t;

static uint64_t n_calls, n_bytes, n_minus1, n_faults, n_abandoned_streams;

static int giving_up(void) { return vx_hangs_seen >= HANG_CAP; }

static void run_parse(const char *s, int len, int mode, obs_t *out)
{
	volatile obs_t *o = out;
	int maxcalls = len + 2;
	o->n = 0; o->first_end = -1; o->fault = 0;
	if (VX_TRY) {
		int extra = 0;
		*CUR = mode == 1 ? DECOY : s;
		for (;;) {
			int r, i = o->n;
			vx_opseq++;		/* the watchdog times one call, not the whole text */
			if (mode == 1) r = hex_get_byte(i == 0 ? s : NULL, CUR);
			else r = hex_get_byte(*CUR, CUR);
			o->v[i] = r; o->n = i + 1;
			if (o->first_end < 0) {
				if (r == -1) o->first_end = i;
				else if (i + 1 >= maxcalls) break;
			}
			if (o->first_end >= 0 && o->first_end != i && ++extra >= EXTRA) break;
		}
		VX_END;
	} else {
		VX_END;
		o->fault = vx_fault_kind;
		n_faults++;
	}
	n_calls += (uint64_t)out->n;
	for (int i = 0; i < out->n; i++) { if (out->v[i] == -1) n_minus1++; else n_bytes++; }
}

#define FAULT_RUNAWAY 1000		/* the dump wrote far more than any dump of that many bytes can need */

static const char *fault_name(int k)
{
	switch (k) {
	case VX_FAULT_ASSERT: return "fault:assert";
	case VX_FAULT_HANG: return "fault:hang";
	case FAULT_RUNAWAY: return "dump-runaway";
	case SIGSEGV: return "fault:SIGSEGV";
	case SIGBUS: return "fault:SIGBUS";
	case SIGFPE: return "fault:SIGFPE";
	case SIGABRT: return "fault:SIGABRT";
	}
	return "fault:other";
}

/* the oracle for one parse run; exp == NULL: only the safety clauses */
static const char *judge(const obs_t *o, const int *exp, int m)
{
	if (o->fault) return fault_name(o->fault);
	for (int i = 0; i < o->n; i++) if (o->v[i] < -1 || o->v[i] > 255) return "range";
	if (o->first_end < 0) return "no-end";
	if (exp) {
		if (o->first_end != m) return "seq";
		for (int i = 0; i < m; i++) if (o->v[i] != exp[i]) return "seq";
	}
	for (int i = o->first_end + 1; i < o->n; i++) if (o->v[i] != -1) return "end-not-sticky";
	if (o->n != o->first_end + 1 + EXTRA) return "end-not-sticky";	/* cannot happen */
	return NULL;
}

/* ---------------------------------------------------------- reference grammar */

static int ref_is_hex(int c) { return (c >= '0' && c <= '9') || (c >= 'a' && c <= 'f') || (c >= 'A' && c <= 'F'); }
static int ref_hexval(int c) { return c <= '9' ? c - '0' : (c | 0x20) - 'a' + 10; }
static int ref_is_ws(int c) { return c == ' ' || c == '\t' || c == '\r' || c == '\v' || c == '\f'; }

#define TF_ADDR   1		/* some line has an address prefix */
#define TF_MIXED  2		/* a line with pairs but without prefix precedes a line with prefix */
#define TF_PREFIX 4		/* some pair has 0x */
#define TF_UPPER  8		/* some pair has an upper-case digit */
#define TF_WS    16		/* white space present */

/* 1 if t[0..n) is a sequence of well-formed lines; the bytes it denotes -> exp[0..*m);
 * linepairs (optional): the number of pairs on each line */
static int ref_parse(const uint8_t *t, int n, int *exp, int *m, int *flags, int *nlines, int *linepairs)
{
	int i = 0, fl = 0, plain_pairs = 0, lines = 0;
	*m = 0;
	while (i < n) {
		int e = i, c = -1, pairs = 0;
		while (e < n && t[e] != '\n') { if (t[e] == ':' && c < 0) c = e; e++; }
		if (e == n) return 0;			/* unterminated line */
		if (c >= 0) {
			int a0 = i;
			while (a0 < c && ref_is_ws(t[a0])) { a0++; fl |= TF_WS; }	/* an indented address: white space is arbitrary */
			if (c == a0) return 0;
			for (int k = a0; k < c; k++) if (!ref_is_hex(t[k])) return 0;
			i = c + 1; fl |= TF_ADDR;
			if (plain_pairs) fl |= TF_MIXED;
		}
		for (;;) {
			while (i < e && ref_is_ws(t[i])) { i++; fl |= TF_WS; }
			if (i == e) break;
			if (t[i] == '0' && i + 1 < e && t[i + 1] == 'x') { i += 2; fl |= TF_PREFIX; }
			if (i + 1 < e && ref_is_hex(t[i]) && ref_is_hex(t[i + 1])) {
				if ((t[i] >= 'A' && t[i] <= 'F') || (t[i + 1] >= 'A' && t[i + 1] <= 'F')) fl |= TF_UPPER;
				exp[(*m)++] = ref_hexval(t[i]) * 16 + ref_hexval(t[i + 1]);
				i += 2; pairs++;
			} else
				return 0;
		}
		if (c < 0) plain_pairs += pairs;
		if (linepairs) linepairs[lines] = pairs;
		i = e + 1; lines++;
	}
	if (flags) *flags = fl;
	if (nlines) *nlines = lines;
	return 1;
}

/* ------------------------------------------------------------------- cases */

typedef struct {
	char part;			/* 'a' .. 'e' */
	int mode;			/* calling protocol 1 / 2 */
	int place;			/* 0 before a guard page, 1 after one (b .. e) */
	int len, pos, val, bg;		/* (a): array length, position and value of the odd byte, background */
	int n; uint8_t text[MAXT + 2];	/* (b) .. (e): the text; (a): filled in with the dump */
} case_t;

static void case_copy(case_t *d, const case_t *s)
{
	memcpy(d, s, offsetof(case_t, text) + (size_t)(s->n > 0 ? s->n : 0) + 1);
}

/* backgrounds of (a): constants, a ramp of period 256 and two of a period that is no power of two (an index that
 * wraps at 2^8 or 2^16 lands on a different byte) */
static const int bg_fill[] = { 0x00, 0x0f, 0xa0, 0xff, -1 /* ramp */, -2 /* i % 251 */ };
#define NBG 6
#define A_MAXLEN 49

static void a_array(const case_t *c, uint8_t *arr)
{
	int f = bg_fill[c->bg];
	for (int i = 0; i < c->len; i++) arr[i] = (uint8_t)(f >= 0 ? f : f == -1 ? i * 37 + 11 : (i % 251) ^ (i / 251 * 16));
	if (c->len) arr[c->pos] = (uint8_t)c->val;
}

/* what the run of a case showed, for messages and the distinct count */
typedef struct { int m; int have_exp; int flags, nlines; int in_grammar; char detail[200]; obs_t o; int exp[MAXT + 2]; } res_t;

static uint64_t n_dumps, n_dump_unjudged_long;

/* the sink hex_dump_to_file writes to: a stdio stream over a fixed buffer (no allocation and no lock inside the
 * section under test, so that a fault or a watchdog hit inside stdio cannot dead-lock or corrupt the harness), with a
 * limit far above anything a dump of the array can need: an output loop that has lost its end condition is stopped
 * there instead of filling the memory */
static struct { uint8_t *buf; size_t n, cap, limit; int overflow; } SINK;
static char sink_iobuf[BUFSIZ];

static ssize_t sink_write(void *cookie, const char *b, size_t n)
{
	(void)cookie;
	if (SINK.n + n > SINK.limit || SINK.n + n > SINK.cap) {
		SINK.overflow = 1;
		if (vx_armed) {
			vx_fault_kind = FAULT_RUNAWAY;
			snprintf(vx_fault_msg, sizeof(vx_fault_msg), "more than %zu characters written", SINK.limit);
			siglongjmp(vx_jb, 1);
		}
		return (ssize_t)n;		/* discarded */
	}
	memcpy(SINK.buf + SINK.n, b, n); SINK.n += n;
	return (ssize_t)n;
}

/* shape of the dump: lines of 16 two-digit lower-case pairs (the last one shorter), the pairs being those of the
 * array. What the statement allows a line to carry besides (white space, an address prefix, 0x) and a missing final
 * newline are tolerated: the statement does not exclude them. */
static const char *a_shape(const uint8_t *arr, int len, case_t *c, res_t *r)
{
	static int lp[MAXT + 2];
	int m = 0, fl = 0, nl = 0, n = c->n, done = 0, ok;
	if (n && c->text[n - 1] != '\n') c->text[n++] = '\n';
	ok = ref_parse(c->text, n, r->exp, &m, &fl, &nl, lp);
	c->text[c->n] = 0;
	if (!ok) { snprintf(r->detail, sizeof(r->detail), "the dump is not a sequence of lines of two-digit hex pairs"); return "dump-shape"; }
	if (fl & TF_UPPER) { snprintf(r->detail, sizeof(r->detail), "a pair has an upper-case digit"); return "dump-shape"; }
	for (int i = 0; i < m && i < len; i++)
		if (r->exp[i] != arr[i]) { snprintf(r->detail, sizeof(r->detail), "pair %d is %02x, byte is 0x%02x", i, r->exp[i], arr[i]); return "dump-digits"; }
	for (int l = 0; l < nl; l++) {
		int want = len - done; if (want > 16) want = 16;
		if (lp[l] == 0 && done >= len) continue;
		if (lp[l] != want) { snprintf(r->detail, sizeof(r->detail), "line %d has %d pairs, expected %d", l, lp[l], want); return "dump-shape"; }
		done += lp[l];
	}
	if (m != len) { snprintf(r->detail, sizeof(r->detail), "%d pairs for %d bytes", m, len); return "dump-shape"; }
	return NULL;
}

/* run one case completely; returns the failure kind or NULL */
static const char *eval_case(case_t *c, res_t *r)
{
	const char *k;
	r->have_exp = 0; r->detail[0] = 0; r->o.n = 0; r->o.fault = 0; r->o.first_end = -1; r->flags = 0; r->in_grammar = 0; r->m = 0;
	vx_lib_reset();				/* whatever hex.c keeps in statics starts afresh in every case */
	if (c->part == 'a') {
		uint8_t *arr = AR_END - c->len;
		volatile int fault = 0;
		static cookie_io_functions_t io = { .write = sink_write };
		a_array(c, arr);
		c->n = 0; c->text[0] = 0;
		SINK.n = 0; SINK.overflow = 0; SINK.limit = 16 * (size_t)c->len + 4096;
		FILE *f = fopencookie(NULL, "w", io);
		if (!f) { perror("fopencookie"); _exit(3); }
		__fsetlocking(f, FSETLOCKING_BYCALLER);
		setvbuf(f, sink_iobuf, _IOFBF, sizeof(sink_iobuf));
		n_dumps++;
		if (VX_TRY) { hex_dump_to_file(f, arr, (size_t)c->len); fflush(f); VX_END; }
		else { VX_END; fault = vx_fault_kind; n_faults++; }
		if (fault) {		/* the stream is in an unknown state: it is abandoned, not closed */
			n_abandoned_streams++;
			snprintf(r->detail, sizeof(r->detail), "hex_dump_to_file: %.120s", vx_fault_msg);
			return fault_name(fault);
		}
		fclose(f);
		if (SINK.overflow) { snprintf(r->detail, sizeof(r->detail), "hex_dump_to_file: more than %zu characters written", SINK.limit); return "dump-runaway"; }
		if (SINK.n >= MAXT) { n_dump_unjudged_long++; return NULL; }	/* a (legal) format too wide for the buffers here */
		memcpy(c->text, SINK.buf, SINK.n); c->n = (int)SINK.n; c->text[c->n] = 0;
		if (memchr(c->text, 0, (size_t)c->n)) {
			snprintf(r->detail, sizeof(r->detail), "NUL character in the dump at offset %zu", strlen((char *)c->text));
			return "dump-shape";
		}
		k = a_shape(arr, c->len, c, r);
		if (k) return k;
		for (int i = 0; i < c->len; i++) r->exp[i] = arr[i];
		r->m = c->len; r->have_exp = 1;
		run_parse(place_text(c->text, c->n, 0), c->n, c->mode, &r->o);
		k = judge(&r->o, r->exp, r->m);
		if (k && !strncmp(k, "fault", 5)) snprintf(r->detail, sizeof(r->detail), "hex_get_byte: %.120s", vx_fault_msg);
		return k;
	}
	/* texts: the safety clauses always, the values whenever the reference grammar accepts the text */
	r->in_grammar = ref_parse(c->text, c->n, r->exp, &r->m, &r->flags, &r->nlines, NULL);
	r->have_exp = r->in_grammar && !(c->mode == 2 && (r->flags & TF_ADDR));
	run_parse(place_text(c->text, c->n, c->place), c->n, c->mode, &r->o);
	k = judge(&r->o, r->have_exp ? r->exp : NULL, r->m);
	if (k && !strncmp(k, "fault", 5)) snprintf(r->detail, sizeof(r->detail), "hex_get_byte: %.120s", vx_fault_msg);
	return k;
}

/* ------------------------------------------------------------- minimisation */

static uint64_t n_min_evals;
static uint64_t min_work;		/* characters evaluated while minimising the current case (deterministic budget) */
#define MIN_WORK_BUDGET 60000000ull

static int still_fails(case_t *c, const char *kind)
{
	static res_t r;
	if (giving_up() || min_work > MIN_WORK_BUDGET) return 0;
	n_min_evals++;
	min_work += (uint64_t)(c->part == 'a' ? 4 * c->len : c->n) + 64;
	const char *k = eval_case(c, &r);
	return k && !strcmp(k, kind);
}

/* the array lengths of (a), ascending: every length up to A_MAXLEN, then both sides of the boundaries */
static const int a_long_quick[] = { 63, 64, 65, 79, 80, 81, 127, 128, 129, 143, 144, 145, 255, 256, 257, 271, 272, 273, 511, 512, 513, 527, 528, 529,
				    1023, 1024, 1025, 4095, 4096, 4097 };
static const int a_long_thorough[] = { 32767, 32768, 32769, 65535, 65536, 65537 };
#define LENGTHOF(a) ((int)(sizeof(a) / sizeof((a)[0])))

static int a_positions(int len, int *out)
{
	static const int cand[] = { 0, 1, 15, 16, 17, 127, 128, 254, 255, 256, 257, 4095, 4096, 32767, 32768, 65534, 65535, 65536 };
	int n = 0;
	for (int i = 0; i < LENGTHOF(cand); i++) if (cand[i] < len - 2) out[n++] = cand[i];
	if (len >= 2) out[n++] = len - 2;
	if (len >= 1) out[n++] = len - 1;
	return n;
}
/* the li-th array length of (a) in ascending order, -1 past the end */
static int a_len_candidate(int li)
{
	if (li <= A_MAXLEN) return li;
	li -= A_MAXLEN + 1;
	if (li < LENGTHOF(a_long_quick)) return a_long_quick[li];
	li -= LENGTHOF(a_long_quick);
	return li < LENGTHOF(a_long_thorough) ? a_long_thorough[li] : -1;
}
static const int a_values[] = { 0x00, 0x09, 0x0a, 0x10, 0x7f, 0x80, 0x9f, 0xa0, 0xf9, 0xff };

/* (a): does the case with these parameters fail in the same way? then it replaces *c */
static int try_a(case_t *c, const char *kind, int len, int pos, int val, int bg)
{
	static case_t t;
	memcpy(&t, c, offsetof(case_t, text) + 1);
	t.n = 0; t.text[0] = 0; t.len = len; t.pos = pos; t.val = val; t.bg = bg;
	if (!still_fails(&t, kind)) return 0;
	c->len = len; c->pos = pos; c->val = val; c->bg = bg;
	return 1;
}

static void minimise(case_t *c, const char *kind)
{
	static case_t t;
	int changed = 1;
	min_work = 0;
	while (changed) {
		changed = 0;
		if (c->mode == 2) { case_copy(&t, c); t.mode = 1; if (still_fails(&t, kind)) { case_copy(c, &t); changed = 1; } }
		if (c->place == 1) { case_copy(&t, c); t.place = 0; if (still_fails(&t, kind)) { case_copy(c, &t); changed = 1; } }
		if (c->part == 'a') {
			int ps[64], np;
			if (c->len > 0 && try_a(c, kind, 0, 0, 0, 0)) { changed = 1; continue; }
			for (int b = 0; b < c->bg; b++) if (try_a(c, kind, c->len, c->pos, c->val, b)) { changed = 1; break; }
			for (int v = 0; v < c->val; v++) if (try_a(c, kind, c->len, c->pos, v, c->bg)) { changed = 1; break; }
			/* a shorter array: every length up to A_MAXLEN, then the boundary lengths; the odd byte stays or moves down */
			for (int pass = 0, found = 0; pass < 2 && !found; pass++)
				for (int li = 1, l; (l = a_len_candidate(li)) >= 0 && l < c->len; li++) {
					if (pass == 0 && c->pos >= l) continue;
					if (try_a(c, kind, l, pass == 0 ? c->pos : l - 1, c->val, c->bg)) { changed = found = 1; break; }
				}
			if (c->len <= A_MAXLEN) { np = 0; for (int q = 0; q < c->pos; q++) ps[np++] = q; }
			else np = a_positions(c->len, ps);
			for (int i = 0; i < np && ps[i] < c->pos; i++) if (try_a(c, kind, c->len, ps[i], c->val, c->bg)) { changed = 1; break; }
			continue;
		}
		/* delete substrings, longest first (halves, quarters, ... single characters) */
		int w0 = 1; while (w0 * 2 <= c->n) w0 *= 2;
		for (int w = w0; w >= 1; w = w > 4 ? w / 2 : w - 1)
			for (int i = 0; i + w <= c->n; ) {
				case_copy(&t, c);
				memmove(t.text + i, t.text + i + w, (size_t)(t.n - i - w));
				t.n -= w; t.text[t.n] = 0;
				if (still_fails(&t, kind)) { case_copy(c, &t); changed = 1; } else i += w > 4 ? w : 1;
			}
		/* canonical characters, all at once: digit 0, blank */
		{
			int any = 0;
			case_copy(&t, c);
			for (int i = 0; i < t.n; i++) {
				int ch = t.text[i];
				if (ref_is_hex(ch) && ch != '0') { t.text[i] = '0'; any = 1; }
				else if (ref_is_ws(ch) && ch != ' ') { t.text[i] = ' '; any = 1; }
			}
			if (any && still_fails(&t, kind)) { case_copy(c, &t); changed = 1; }
		}
		/* then one by one: lower case, digit 0, blank */
		for (int i = 0; i < c->n && c->n <= 2048; i++) {
			int ch = c->text[i], alt[5], na = 0;
			if (ref_is_hex(ch) && ch != '0') alt[na++] = '0';
			if (ch >= 'A' && ch <= 'F') alt[na++] = ch | 0x20;
			if (ch > '1' && ch <= '9') alt[na++] = '1';
			if (ch > 'a' && ch <= 'f') alt[na++] = 'a';
			if (ch > 'A' && ch <= 'F') alt[na++] = 'A';
			if (ref_is_ws(ch) && ch != ' ') alt[na++] = ' ';
			for (int a = 0; a < na; a++) {
				case_copy(&t, c); t.text[i] = (uint8_t)alt[a];
				if (still_fails(&t, kind)) { case_copy(c, &t); changed = 1; break; }
			}
		}
	}
}

/* ------------------------------------------------------- violation reporting */

static void esc_char(vx_sb *sb, int ch)
{
	if (ch == '\n') vx_sb_printf(sb, "\\n");
	else if (ch == '\t') vx_sb_printf(sb, "\\t");
	else if (ch == '\r') vx_sb_printf(sb, "\\r");
	else if (ch == '"' || ch == '\\') vx_sb_printf(sb, "\\%c", ch);
	else if (ch < 0x20 || ch >= 0x7f || ch == '(' || ch == ')' || ch == '{' || ch == '}') vx_sb_printf(sb, "\\x%02x", ch);
	else vx_sb_printf(sb, "%c", ch);
}
/* a text in printable form; a unit of up to 8 characters repeated so that it covers 12 or more is written
 * (unit){count}; beyond ~360 characters the rest is replaced by the total length and a hash of the whole text */
static void esc_text(vx_sb *sb, const uint8_t *t, int n)
{
	size_t start = sb->n;
	int i = 0;
	vx_sb_printf(sb, "\"");
	while (i < n) {
		int bp = 0, br = 0;
		if (sb->n - start > 360) {
			uint64_t h = 0xcbf29ce484222325ull;
			for (int k = 0; k < n; k++) h = (h ^ t[k]) * 0x100000001b3ull;
			vx_sb_printf(sb, "\"...(%d characters in all, fnv1a %016llx)", n, (unsigned long long)h);
			return;
		}
		for (int p = 1; p <= 8 && i + p <= n; p++) {
			int r = 1;
			while (i + (r + 1) * p <= n && !memcmp(t + i, t + i + r * p, (size_t)p)) r++;
			if (r >= 3 && r * p >= 12 && r * p > br * bp) { bp = p; br = r; }
		}
		if (bp) {
			vx_sb_printf(sb, "(");
			for (int k = 0; k < bp; k++) esc_char(sb, t[i + k]);
			vx_sb_printf(sb, "){%d}", br);
			i += bp * br;
		} else
			esc_char(sb, t[i++]);
	}
	vx_sb_printf(sb, "\"");
}
static void seq_text(vx_sb *sb, const int *v, int n)
{
	vx_sb_printf(sb, "[");
	for (int i = 0; i < n; i++) {
		if (n > 80 && i >= 56 && i < n - 12) { if (i == 56) vx_sb_printf(sb, " ... (%d values) ...", n - 68); continue; }
		if (v[i] >= 0 && v[i] <= 255) vx_sb_printf(sb, "%s%02x", i ? " " : "", v[i]);
		else vx_sb_printf(sb, "%s%d", i ? " " : "", v[i]);
	}
	vx_sb_printf(sb, "]");
}
static void describe_case(vx_sb *sb, const case_t *c)
{
	if (c->part == 'a') {
		if (c->len == 0) vx_sb_printf(sb, "len=0 mode=%d", c->mode);
		else if (bg_fill[c->bg] >= 0) vx_sb_printf(sb, "len=%d pos=%d val=0x%02x bg=0x%02x mode=%d", c->len, c->pos, c->val, bg_fill[c->bg], c->mode);
		else vx_sb_printf(sb, "len=%d pos=%d val=0x%02x bg=%s mode=%d", c->len, c->pos, c->val, bg_fill[c->bg] == -1 ? "ramp" : "mod251", c->mode);
	} else {
		vx_sb_printf(sb, "mode=%d ", c->mode);
		if (c->part == 'c' || c->part == 'd' || c->place) vx_sb_printf(sb, "place=%s ", c->place ? "after-guard" : "before-guard");
		vx_sb_printf(sb, "text=");
		esc_text(sb, c->text, c->n);
	}
}
static void replay_text(vx_sb *sb, const case_t *c)
{
	vx_sb_printf(sb, "part=%c\nmode=%d\nplace=%d\n", c->part, c->mode, c->place);
	if (c->part == 'a') vx_sb_printf(sb, "len=%d\npos=%d\nval=%d\nbg=%d\n", c->len, c->pos, c->val, c->bg);
	else {
		char *hx = malloc((size_t)c->n * 2 + 1);
		if (!hx) _exit(3);
		for (int i = 0; i < c->n; i++) sprintf(hx + 2 * i, "%02x", c->text[i]);
		hx[2 * c->n] = 0;
		vx_sb_printf(sb, "hex=%s\n", hx);
		free(hx);
	}
}

/* Only the first MIN_PER_CLASS failing cases of every (part, kind, class) are
 * minimised and can create a signature; later ones of the same class are
 * counted under the last signature of that class. The class is a cheap
 * description of the failing input (which token kinds / characters it has), so
 * that a defect showing only in another sort of input is never just counted
 * under the signature of an already known one. */
#define MIN_PER_CLASS 6
#define NSLOTS 16384
static struct kslot { uint64_t key; int nmin; char *lastsig; } kslots[NSLOTS];
static int nkslots;
static int replaying;
static uint64_t b_fail_mixed, b_fail_other;

static int char_class(int ch)
{
	if (ch >= '0' && ch <= '9') return 0;
	if ((ch | 0x20) >= 'a' && (ch | 0x20) <= 'f' && ch < 0x80) return 1;
	if (ch == 'x' || ch == 'X') return 2;
	if (ch == ':') return 3;
	if (ch == ' ' || ch == '\t') return 4;
	if (ch == '\n') return 5;
	if (ch == '\r' || ch == '\v' || ch == '\f') return 6;
	if (ch == '-' || ch == '+') return 7;
	if (ch >= 0x80) { int lo = ch & 0x7f; return ref_is_hex(lo) ? 8 : (lo == '\n' || ref_is_ws(lo)) ? 9 : 10; }
	if (ch == '/' || ch == ';' || ch == '@' || ch == 'G' || ch == 'g' || ch == '`') return 11;
	if (ch < 0x20 || ch == 0x7f) return 12;
	return 13;
}

static uint64_t case_class(const case_t *c)
{
	uint64_t k = (uint64_t)(c->mode - 1);
	if (c->part == 'a') {
		int l = c->len, bucket = l == 0 ? 0 : l < 16 ? 1 : l == 16 ? 2 : l < 32 ? 3 : l == 32 ? 4 : l < 48 ? 5 : l == 48 ? 6 : l <= A_MAXLEN ? 7 :
			l < 256 ? 8 : l < 4096 ? 9 : l < 65536 ? 10 : 11;
		return k | (uint64_t)c->bg << 1 | (uint64_t)bucket << 4;
	}
	if (c->part == 'b') {
		static int exp[MAXT + 2];
		int m, fl = 0, nl = 0;
		ref_parse(c->text, c->n, exp, &m, &fl, &nl, NULL);
		if (fl & TF_MIXED) b_fail_mixed++; else b_fail_other++;
		return k | (uint64_t)fl << 1 | (uint64_t)(nl >= 2) << 8;
	}
	uint64_t mask = 0;
	for (int i = 0; i < c->n; i++) mask |= 1u << char_class(c->text[i]);
	return k | (uint64_t)c->place << 1 | mask << 2 | (uint64_t)(c->n >= 256) << 20 | (uint64_t)(c->n >= 65536) << 21;
}

static void report(const case_t *c0, const char *kind)
{
	static case_t c;
	static res_t r;
	vx_hasher h; vx_h_init(&h);
	vx_h_u64(&h, (uint64_t)c0->part); vx_h_bytes(&h, kind, strlen(kind)); vx_h_u64(&h, case_class(c0));
	uint64_t key = vx_h_done(&h).a | 1;
	struct kslot *ks;
	for (uint64_t i = key % NSLOTS; ; i = (i + 1) % NSLOTS) {
		ks = &kslots[i];
		if (ks->key == key) break;
		if (!ks->key) { if (nkslots >= NSLOTS / 2) return; nkslots++; ks->key = key; break; }
	}
	if (ks->nmin >= MIN_PER_CLASS && ks->lastsig) { vx_violation(ks->lastsig, "", "(counted only)"); return; }
	case_copy(&c, c0);
	if (!replaying) minimise(&c, kind);
	ks->nmin++;
	const char *k = eval_case(&c, &r);
	if (!k || strcmp(k, kind)) {	/* not deterministic: keep the case as found */
		vx_note("a minimised case did not fail again; reported unminimised");
		case_copy(&c, c0); k = eval_case(&c, &r);
		if (!k || strcmp(k, kind)) { vx_note("a failing case did not fail again when re-run (%s)", kind); return; }
	}
	vx_sb sig = {0}, rep = {0}, msg = {0};
	vx_sb_printf(&sig, "C18%c|%s|", c.part, kind);
	describe_case(&sig, &c);
	replay_text(&rep, &c);
	if (c.part == 'a' && c.n) { vx_sb_printf(&msg, "dump text "); esc_text(&msg, c.text, c.n); vx_sb_printf(&msg, "; "); }
	if (r.detail[0]) vx_sb_printf(&msg, "%s; ", r.detail);
	if (r.have_exp) {
		int d = 0;
		vx_sb_printf(&msg, "expected bytes "); seq_text(&msg, r.exp, r.m); vx_sb_printf(&msg, " then -1; ");
		while (d < r.m && d < r.o.n && r.o.v[d] == r.exp[d]) d++;
		if (!strcmp(kind, "seq")) vx_sb_printf(&msg, "first difference at call %d; ", d);
	}
	vx_sb_printf(&msg, "hex_get_byte returned "); seq_text(&msg, r.o.v, r.o.n);
	if (!strcmp(kind, "no-end")) vx_sb_printf(&msg, " (no -1 within len+2 = %d calls)", c.n + 2);
	vx_violation(sig.s, rep.s, "%s: %s", kind, msg.s);
	free(ks->lastsig); ks->lastsig = sig.s;
	free(rep.s); free(msg.s);
}

/* -------------------------------------------------- counting what was seen */

static vx_set seen_all, seen_own;
static uint64_t n_eval, n_trivial_obs;
static uint64_t n_eval_part[5], n_valchk_part[5], n_viol_part[5];

static void account(const case_t *c, const res_t *r)
{
	vx_hasher h; vx_h_init(&h);
	int nontrivial = 0, pi = c->part - 'a';
	n_eval++;
	n_eval_part[pi]++;
	if (r->have_exp) n_valchk_part[pi]++;
	vx_h_u64(&h, (uint64_t)c->part);
	vx_h_u64(&h, (uint64_t)r->o.fault);
	for (int i = 0; i < r->o.n; i++) { vx_h_u64(&h, (uint64_t)(int64_t)r->o.v[i]); if (r->o.v[i] != -1) nontrivial = 1; }
	if (c->part == 'a') { vx_h_bytes(&h, c->text, (size_t)c->n); if (c->n) nontrivial = 1; }
	if (!nontrivial) { n_trivial_obs++; return; }
	vx_h128 k = vx_h_done(&h);
	vx_set_add(&seen_all, k);
	/* a1 is partitioned by array length and the dump text is part of the tuple: its tuples cannot recur in another
	 * worker, so they are all owned here; every other tuple is owned by the worker its hash names */
	if ((c->part == 'a' && c->len <= A_MAXLEN) || (int)(k.b % (uint64_t)vx_args.nworkers) == vx_args.worker) vx_set_add(&seen_own, k);
}

/* evaluate, account, report; returns 1 on a violation */
static int do_case(case_t *c, res_t *r)
{
	/* every further case could cost another watchdog period: nothing is evaluated any more, the loops run out
	 * and the parts report themselves as abandoned */
	if (giving_up()) { r->in_grammar = 1; r->o.first_end = -1; return 0; }
	const char *k = eval_case(c, r);
	account(c, r);
	if (k) { n_viol_part[c->part - 'a']++; report(c, k); return 1; }
	return 0;
}

/* one sample per family and worker (the evidence keeps the first few workers' samples) */
static void sample_case(const char *family, case_t *c, res_t *r)
{
	if (!vx_want_sample()) return;
	int mode = c->mode;
	c->mode = 1;
	eval_case(c, r);
	vx_sb sb = {0};
	vx_sb_printf(&sb, "(%s) ", family);
	describe_case(&sb, c);
	if (c->part == 'a') { vx_sb_printf(&sb, " dump="); esc_text(&sb, c->text, c->n); }
	vx_sb_printf(&sb, " -> ");
	seq_text(&sb, r->o.v, r->o.n);
	if (c->part != 'a') vx_sb_printf(&sb, r->have_exp ? " (values checked)" : " (safety clauses only)");
	vx_sample("%s", sb.s);
	free(sb.s);
	c->mode = mode;
}

/* A part is abandoned (and the run reported as not exhaustive) at the deadline,
 * when it has already produced FAULT_CAP faults in this worker (a caught
 * signal costs ~10 us and a tree on which nearly every call faults would
 * otherwise need hours to say the same thing again), or when the watchdog has
 * fired HANG_CAP times in this worker (every hit costs a watchdog period). */
#define FAULT_CAP 20000
static uint64_t part_fault_base;
static void part_begin(void) { part_fault_base = n_faults; }
static int must_stop(char part)
{
	if (giving_up()) { vx_note("part (%c) abandoned after %d watchdog hits in one worker; run is not exhaustive", part, HANG_CAP); return 1; }
	if (vx_deadline_passed()) { vx_note("part (%c) stopped at the deadline", part); return 1; }
	if (n_faults - part_fault_base > FAULT_CAP) {
		vx_note("part (%c) abandoned after more than %d faults in one worker; run is not exhaustive", part, FAULT_CAP);
		return 1;
	}
	return 0;
}

/* ---------------------------------------------------------------- part (a) */

static int part_a(void)
{
	static case_t c; static res_t r;
	memset(&c, 0, offsetof(case_t, text) + 1); c.part = 'a';
	part_begin();
	uint64_t na = 0, nl = 0, idx = 0;
	int sampled = 0, ok = 1;
	for (int len = 0; len <= A_MAXLEN && ok; len++) {
		if (!vx_mine((uint64_t)len)) continue;
		if (must_stop('a')) { ok = 0; break; }
		c.len = len;
		for (int pos = 0; pos < (len ? len : 1) && ok; pos++) {
			for (int val = 0; val < (len ? 256 : 1); val++)
				for (int bg = 0; bg < (len ? NBG : 1); bg++) {
					c.pos = pos; c.val = val; c.bg = bg;
					na++;
					for (c.mode = 1; c.mode <= 2; c.mode++) do_case(&c, &r);
					if (giving_up()) { val = 256; break; }
					if (!sampled && (len == 0 || (pos == len / 2 && val == 0x5a && bg == 3))) { sampled = 1; sample_case("a1", &c, &r); }
				}
			if ((giving_up() || n_faults - part_fault_base > FAULT_CAP) && must_stop('a')) ok = 0;
		}
		if (ok) vx_count("a_lengths_done", 1);
	}
	vx_count("a_arrays", na);
	/* a2: long arrays */
	sampled = 0;
	for (int li = 0; li < LENGTHOF(a_long_quick) + (vx_thorough() ? LENGTHOF(a_long_thorough) : 0) && ok; li++) {
		int len = li < LENGTHOF(a_long_quick) ? a_long_quick[li] : a_long_thorough[li - LENGTHOF(a_long_quick)];
		int ps[32], np = a_positions(len, ps);
		c.len = len;
		for (int bg = 0; bg < NBG && ok; bg++)
			for (int p = 0; p < np && ok; p++)
				for (int v = 0; v < LENGTHOF(a_values); v++) {
					if (!vx_mine(idx++)) continue;
					c.pos = ps[p]; c.val = a_values[v]; c.bg = bg;
					nl++;
					for (c.mode = 1; c.mode <= 2; c.mode++) do_case(&c, &r);
					if (!sampled && len >= 256 && bg == 5) { sampled = 1; sample_case("a2", &c, &r); }
					if ((giving_up() || (nl & 15) == 0) && must_stop('a')) { ok = 0; break; }
				}
	}
	vx_count("a_long_arrays", nl);
	return ok;
}

/* ---------------------------------------------------------------- part (b) */

typedef struct { uint8_t len; char s[39]; } line_t;
typedef struct { line_t *l; int n, cap; } pool_t;

static const char *b_ws[6] = { "", " ", "\t", "  ", "\t\t", "   " };
static const char *b_trail[5] = { "", " \t\r", "  ", "\t\t", "   " };
static const char *b_addr[3] = { "", "10:", "0fA0:" };
static const char *b_val[3] = { "0a", "F9", "bC" };

typedef struct { int nws, ntrail, nval, maxpairs; pool_t *pool; } gen_t;

static uint64_t bc_texts, bc_two, bc_addr, bc_mixed, bc_prefix, bc_upper, bc_ws, bc_mode2_skipped, bc_singles, b_idx;
static int b_ok, b_sampled_single;
static case_t b_c; static res_t b_r;

static void b_run(case_t *c, res_t *r)
{
	c->mode = 1; c->place = 0;
	do_case(c, r);
	if (!r->in_grammar) { fprintf(stderr, "c18: generator left the grammar\n"); _exit(6); }
	int fl = r->flags;
	bc_texts++;
	if (r->nlines == 2) bc_two++;
	if (fl & TF_ADDR) bc_addr++;
	if (fl & TF_MIXED) bc_mixed++;
	if (fl & TF_PREFIX) bc_prefix++;
	if (fl & TF_UPPER) bc_upper++;
	if (fl & TF_WS) bc_ws++;
	if (fl & TF_ADDR) { bc_mode2_skipped++; return; }
	c->mode = 2;
	do_case(c, r);
}

static void b_emit(const gen_t *g, const char *body, const char *trail)
{
	char s[64];
	int n = snprintf(s, sizeof(s), "%s%s\n", body, trail);
	if (n >= (int)sizeof(((line_t *)0)->s)) { fprintf(stderr, "c18: line too long\n"); _exit(6); }
	if (g->pool) {
		pool_t *p = g->pool;
		if (p->n == p->cap) { p->cap = p->cap ? p->cap * 2 : 4096; p->l = realloc(p->l, (size_t)p->cap * sizeof(line_t)); if (!p->l) _exit(3); }
		memcpy(p->l[p->n].s, s, (size_t)n + 1); p->l[p->n].len = (uint8_t)n; p->n++;
		return;
	}
	/* no pool: the line is run on its own */
	uint64_t i = b_idx++;
	if (!b_ok || !vx_mine(i)) return;
	if (giving_up()) { must_stop('b'); b_ok = 0; return; }
	if ((i & 0xfff) == 0 && must_stop('b')) { b_ok = 0; return; }
	memcpy(b_c.text, s, (size_t)n + 1); b_c.n = n;
	b_run(&b_c, &b_r);
	bc_singles++;
	if (!b_sampled_single && (i % 977) == 0 && n > 12) { b_sampled_single = 1; sample_case("b single line", &b_c, &b_r); }
}
static void gen_pairs(const gen_t *g, char *body, int blen, int npairs)
{
	for (int t = 0; t < g->ntrail; t++) { body[blen] = 0; b_emit(g, body, b_trail[t]); }
	if (npairs == g->maxpairs) return;
	for (int w = 0; w < g->nws; w++)
		for (int p = 0; p < 2; p++)
			for (int v = 0; v < g->nval; v++) {
				int n = blen + sprintf(body + blen, "%s%s%s", b_ws[w], p ? "0x" : "", b_val[v]);
				gen_pairs(g, body, n, npairs + 1);
			}
}
static void gen_lines(const gen_t *g)
{
	char body[64];
	for (int a = 0; a < 3; a++) { int n = sprintf(body, "%s", b_addr[a]); gen_pairs(g, body, n, 0); }
}

static const char hexchars22[] = "0123456789abcdefABCDEF";

static void b_flush(void)
{
	vx_count("b_texts", bc_texts);
	vx_count("b_texts_single_line_from_the_token_alphabet", bc_singles);
	vx_count("b_texts_two_lines", bc_two); vx_count("b_texts_with_address_prefix", bc_addr);
	vx_count("b_texts_plain_line_before_prefixed_line", bc_mixed); vx_count("b_texts_with_0x", bc_prefix);
	vx_count("b_texts_with_upper_case", bc_upper); vx_count("b_texts_with_white_space", bc_ws);
	vx_count("b_mode2_skipped_address_prefix", bc_mode2_skipped);
}

/* every two-line text first + second with the first line from A and the second from B (partitioned over A) */
static void b_product(const pool_t *A, const pool_t *B, int both_orders, const char *what)
{
	int sampled = 0;
	uint64_t n = 0;
	for (int i = 0; i < A->n && b_ok; i++) {
		if (!vx_mine((uint64_t)i)) continue;
		if (must_stop('b')) { b_ok = 0; break; }
		for (int j = 0; j < B->n; j++) {
			for (int o = 0; o <= both_orders; o++) {
				const line_t *x = o ? &B->l[j] : &A->l[i], *y = o ? &A->l[i] : &B->l[j];
				memcpy(b_c.text, x->s, x->len); b_c.n = x->len;
				memcpy(b_c.text + b_c.n, y->s, y->len); b_c.n += y->len; b_c.text[b_c.n] = 0;
				b_run(&b_c, &b_r);
				n++;
			}
			if (giving_up()) break;
			if (!sampled && j == (i * 7 + 5) % B->n && A->l[i].len > 9) { sampled = 1; sample_case(what, &b_c, &b_r); }
		}
		if (giving_up() || n_faults - part_fault_base > FAULT_CAP) { must_stop('b'); b_ok = 0; }
	}
	vx_count(what, n);
}

static int part_b(void)
{
	case_t *c = &b_c; res_t *r = &b_r;
	memset(c, 0, offsetof(case_t, text) + 1); c->part = 'b';
	part_begin();
	b_ok = 1;
	/* the empty text: zero lines */
	if (vx_mine(0)) { c->n = 0; c->text[0] = 0; b_run(c, r); }
	/* sweep: every two-character hex pair, alone, prefixed, after an address, next to a second pair */
	for (int h = 0; h < 22 * 22 && b_ok; h++) {
		if (!vx_mine((uint64_t)h)) continue;
		char a[3] = { hexchars22[h / 22], hexchars22[h % 22], 0 };
		static const char *fmt1[] = { "%s\n", "0x%s\n", "10: %s\n", " 0x%s \n", "%s\n\n", "\n%s\n" };
		for (unsigned f = 0; f < sizeof(fmt1) / sizeof(fmt1[0]); f++) {
			c->n = sprintf((char *)c->text, fmt1[f], a); b_run(c, r);
		}
		for (int g = 0; g < 22 * 22 && !giving_up(); g++) {
			char b[3] = { hexchars22[g / 22], hexchars22[g % 22], 0 };
			c->n = sprintf((char *)c->text, "%s%s\n", a, b); b_run(c, r);
			c->n = sprintf((char *)c->text, "%s 0x%s\n", a, b); b_run(c, r);
		}
		vx_count("b_sweep_pairs_done", 1);
		if (must_stop('b')) b_ok = 0;
	}
	/* "arbitrary white space": every kind of C white space other than a single blank or tab, and the same
	 * character repeated, as a separator in every position */
	{
		static const char *xw[] = { "\r", "\v", "\f", " \r", "\r ", "\t\f", "\r\v", "\f\r\v", "  ", "\t\t", "   ", "\t\t\t", "    ", "\r\r", "\v\v", "\f\f", " \t ", "\t \t" };
		static const char *xfmt[] = { "%s%s%s\n", "%s%s0x%s\n", "%.0s%s%s\n", "10:%.0s%s%s\n", "10: %s%s%s\n", "%s%s%.0s\n", "%s%s%s\n0a\n", "F9\n%s%s%s\n", "%s%s%s%2$s%1$s\n",
					      "%1$s%2$s\n%3$s\n", "%2$s%1$s%2$s%3$s%2$s\n", "%2$s10:%2$s%1$s%2$s0x%3$s%2$s\n%2$s\n%3$s\n" };
		static const char *xv[] = { "0a", "F9" };
		int k = 0;
		for (unsigned w = 0; w < sizeof(xw) / sizeof(xw[0]); w++)
			for (unsigned f = 0; f < sizeof(xfmt) / sizeof(xfmt[0]); f++)
				for (int a = 0; a < 2; a++) for (int b = 0; b < 2; b++, k++) {
					if (!vx_mine((uint64_t)k) || !b_ok || giving_up()) continue;
					c->n = sprintf((char *)c->text, xfmt[f], xv[a], xw[w], xv[b]);
					b_run(c, r);
					vx_count("b_texts_with_cr_vt_ff_or_repeated_separators", 1);
					if (k == 301) sample_case("b separators", c, r);
				}
	}
	/* address prefixes that are indented, on the first and on later lines, after blank lines */
	{
		static const char *ifmt[] = { " 10: %s\n", "\t0fA0:%s %s\n", "%s\n 10: %s\n", "%s\n\t0fA0: %s\n", "10: %s\n  20: %s\n", "%s\n\n 10: %s\n",
					      "10: %s\n \t 20:%s\n", " 10: %s\n 20: %s\n", "%s\n \n 10: 0x%s\n",
					      /* addresses of every width up to 24 digits (64-bit addresses are 16; nothing limits the width) */
					      "0000000000400000: %s %s\n", "00000000004000000: %s\n%s\n", "000000000000000000400000: %s\n0123456789abcdefA: %s\n",
					      "%s\n  0000000000400010: %s\n", "0123456789abcdef0123: 0x%s %s\n" };
		static const char *iv[] = { "0a", "F9", "73" };
		int k = 0;
		for (unsigned f = 0; f < sizeof(ifmt) / sizeof(ifmt[0]); f++)
			for (int a = 0; a < 3; a++) for (int b = 0; b < 3; b++, k++) {
				if (!vx_mine((uint64_t)k) || !b_ok || giving_up()) continue;
				c->n = sprintf((char *)c->text, ifmt[f], iv[a], iv[b]);
				b_run(c, r);
				vx_count("b_texts_with_indented_address", 1);
			}
	}
	if (b_ok && must_stop('b')) b_ok = 0;
	/* single lines over the wide token alphabet (repeated blanks and tabs between pairs, after a pair, before the newline) */
	{
		gen_t g = { 6, 5, vx_thorough() ? 3 : 2, 3, NULL };
		b_idx = 0;
		gen_lines(&g);
		if (vx_args.worker == 0) vx_count("b_single_lines_wide_alphabet", b_idx);
	}
	/* two lines, wide alphabet: every line of up to 2 pairs (thorough: also of up to 3 pairs over 2 values) before and
	 * after every line of up to 1 pair */
	if (b_ok) {
		pool_t A = {0}, S = {0};
		gen_t ga = { 6, 5, vx_thorough() ? 3 : 2, 2, &A }, gs = { 6, 5, vx_thorough() ? 3 : 2, 1, &S };
		gen_lines(&ga); gen_lines(&gs);
		if (vx_args.worker == 0) { vx_count("b_line_pool_wide_up_to_2_pairs", (uint64_t)A.n); vx_count("b_line_pool_wide_up_to_1_pair", (uint64_t)S.n); }
		b_product(&A, &S, 1, "b_two_line_texts_wide_alphabet");
		free(A.l); free(S.l);
	}
	if (b_ok && vx_thorough()) {
		pool_t A = {0}, S = {0};
		gen_t ga = { 6, 5, 2, 3, &A }, gs = { 6, 5, 2, 1, &S };
		gen_lines(&ga); gen_lines(&gs);
		if (vx_args.worker == 0) vx_count("b_line_pool_wide_up_to_3_pairs", (uint64_t)A.n);
		b_product(&A, &S, 1, "b_two_line_texts_wide_alphabet_3_pairs");
		free(A.l); free(S.l);
	}
	/* two lines, basic alphabet {"", blank, tab} x {"", " \t\r"}: all ordered pairs of lines of up to 3 pairs.
	 * (Development aid: C18_DEV_SKIP_BASIC_PRODUCT in the environment leaves this product out; the run then says that it
	 * is not exhaustive. A change caught without the product is caught with it.) */
	if (b_ok && getenv("C18_DEV_SKIP_BASIC_PRODUCT")) {
		vx_note("C18_DEV_SKIP_BASIC_PRODUCT is set: the two-line product over the basic alphabet was left out; run is not exhaustive");
		b_ok = 0;
	} else if (b_ok) {
		pool_t P = {0};
		gen_t gp = { 3, 2, vx_thorough() ? 3 : 2, 3, &P };
		gen_lines(&gp);
		if (vx_args.worker == 0) vx_count("b_line_pool_basic", (uint64_t)P.n);
		b_product(&P, &P, 0, "b_two_line_texts_basic_alphabet");
		free(P.l);
	}
	b_flush();
	return b_ok;
}

/* ---------------------------------------------------------------- part (c) */

static const uint8_t c_alpha[9] = { '0', 'a', 'F', 'x', ':', ' ', '\n', 'z', 0x80 };
/* every character a libc number parser or a sloppy range test treats specially: both ends of the three hex ranges and
 * their outer neighbours ('/' ':' '@' 'G' '`' 'g'), signs, x X, white space, and high bytes that become a hex digit or
 * white space when bit 7 is dropped (0xb0 '0', 0xc6 'F', 0xe1 'a', 0xa0 ' ', 0x8a '\n') or are -1 / -128 as a signed char */
static const uint8_t c2_alpha[28] = { '0', '9', 'a', 'f', 'A', 'F', 'x', 'X', ':', ' ', '\t', '\n', '\r', '-', '+', '/', '@', 'G', 'g', '`', 'z',
				      0x80, 0x8a, 0xa0, 0xb0, 0xc6, 0xe1, 0xff };

static uint64_t cc_strings[2], cc_bytes[2];

/* all strings of length 0..maxlen over alpha[0..na); *len_done = the largest length completed */
static int c_enumerate(const uint8_t *alpha, int na, int maxlen, int which, const char *family, int *len_done)
{
	static case_t c; static res_t r;
	memset(&c, 0, offsetof(case_t, text) + 1); c.part = 'c';
	uint64_t block = 0, bsz = (uint64_t)na * na * (na < 16 ? na : 1);
	int sampled = 0;
	*len_done = -1;
	for (int n = 0; n <= maxlen; n++) {
		uint64_t total = 1;
		for (int i = 0; i < n; i++) total *= (uint64_t)na;
		for (uint64_t base = 0; base < total; base += bsz, block++) {
			if (!vx_mine(block)) continue;
			if (must_stop('c')) return 0;
			uint64_t end = base + bsz < total ? base + bsz : total;
			for (uint64_t idx = base; idx < end; idx++) {
				uint64_t x = idx;
				for (int i = n - 1; i >= 0; i--) { c.text[i] = alpha[x % (uint64_t)na]; x /= (uint64_t)na; }
				c.text[n] = 0; c.n = n;
				int bytes = 0;
				for (c.place = 0; c.place <= 1; c.place++)
					for (c.mode = 1; c.mode <= 2; c.mode++) {
						do_case(&c, &r);
						if (r.o.first_end > 0) bytes = 1;
					}
				if (giving_up()) break;
				cc_strings[which]++;
				if (bytes) cc_bytes[which]++;
				if (n == maxlen && !sampled && bytes && idx % 7 == 3) { sampled = 1; c.place = 1; sample_case(family, &c, &r); }
			}
			if (giving_up()) { must_stop('c'); return 0; }
		}
		*len_done = n;
	}
	return 1;
}

static int part_c(int *len_done, int *len_done2)
{
	part_begin();
	int ok = c_enumerate(c_alpha, 9, vx_thorough() ? 8 : 7, 0, "c 9-character alphabet", len_done);
	if (ok) ok = c_enumerate(c2_alpha, 28, vx_thorough() ? 5 : 4, 1, "c 28-character alphabet", len_done2);
	vx_count("c_strings", cc_strings[0]); vx_count("c_strings_yielding_bytes", cc_bytes[0]);
	vx_count("c2_strings_wide_alphabet", cc_strings[1]); vx_count("c2_strings_yielding_bytes", cc_bytes[1]);
	return ok;
}

/* ---------------------------------------------------------------- part (d) */

static const char *d_tmpl[] = { "00\n", "00 00\n", "0x00\n", "0: 00\n", "00\n00\n", " 00 \n", "00" };

static int part_d(void)
{
	static case_t c; static res_t r;
	memset(&c, 0, offsetof(case_t, text) + 1); c.part = 'd';
	part_begin();
	uint64_t idx = 0, nt = 0, ng = 0;
	int sampled = 0;
	for (int t = 0; t < LENGTHOF(d_tmpl); t++) {
		int L = (int)strlen(d_tmpl[t]);
		for (int i = 0; i < L; i++)
			for (int j = i; j < L; j++)
				for (int u = 0; u < 256; u++) {
					idx++;
					if (!vx_mine(idx + idx / 256)) continue;
					if (must_stop('d')) { vx_count("d_texts", nt); vx_count("d_texts_in_grammar", ng); return 0; }
					for (int v = 0; v < (i == j ? 1 : 256); v++) {
						memcpy(c.text, d_tmpl[t], (size_t)L + 1);
						c.text[i] = (uint8_t)u;
						if (j != i) c.text[j] = (uint8_t)v;
						c.n = (int)strlen((char *)c.text);
						for (c.place = 0; c.place <= 1; c.place++)
							for (c.mode = 1; c.mode <= 2; c.mode++) do_case(&c, &r);
						if (giving_up()) break;
						nt++;
						if (r.in_grammar) ng++;
						if (!sampled && u >= 0x80 && v == 'a' && j == i + 1) { sampled = 1; c.place = 0; sample_case("d byte sweep", &c, &r); }
					}
				}
	}
	vx_count("d_texts", nt); vx_count("d_texts_in_grammar", ng);
	return 1;
}

/* ---------------------------------------------------------------- part (e) */

static int e_room(const case_t *c, size_t add) { return (size_t)c->n + add <= MAXT; }
static void e_put(case_t *c, const char *s) { size_t l = strlen(s); memcpy(c->text + c->n, s, l); c->n += (int)l; }
static void e_rep(case_t *c, const char *unit, int count)	/* count characters of the repeated unit */
{
	size_t l = strlen(unit);
	for (int i = 0; i < count; i++) c->text[c->n++] = (uint8_t)unit[(size_t)i % l];
}
static int e_pair_no;
static void e_pair(case_t *c)			/* pairs differ from their neighbours, every other one in upper case */
{
	static const char lo[] = "0123456789abcdef", up[] = "0123456789ABCDEF";
	int v = (e_pair_no * 29 + 10) & 0xff;
	const char *d = (e_pair_no & 1) ? up : lo;
	c->text[c->n++] = (uint8_t)d[v >> 4]; c->text[c->n++] = (uint8_t)d[v & 15];
	e_pair_no++;
}

#define E_NTMPL 16
/* builds template t with count k and white-space unit ws into c; returns 0 if it does not fit MAXT */
static int e_build(case_t *c, int t, int k, const char *ws)
{
	c->n = 0; e_pair_no = 0;
	size_t K = (size_t)k;
	switch (t) {
	case 0: if (!e_room(c, K + 8)) return 0; e_pair(c); e_rep(c, ws, k); e_pair(c); e_put(c, "\n"); break;			/* between pairs */
	case 1: if (!e_room(c, K + 8)) return 0; e_rep(c, ws, k); e_pair(c); e_put(c, "\n"); break;					/* before the first pair */
	case 2: if (!e_room(c, K + 8)) return 0; e_pair(c); e_rep(c, ws, k); e_put(c, "\n"); e_pair(c); e_put(c, "\n"); break;	/* after the last pair */
	case 3: if (!e_room(c, K + 12)) return 0; e_put(c, "10:"); e_rep(c, ws, k); e_pair(c); e_put(c, "\n"); break;		/* after the address */
	case 4: if (!e_room(c, K + 12)) return 0; e_rep(c, ws, k); e_put(c, "10: "); e_pair(c); e_put(c, "\n"); break;		/* before the address */
	case 5: if (!e_room(c, K + 12)) return 0; e_pair(c); e_put(c, "\n"); e_rep(c, ws, k); e_put(c, "\n"); e_pair(c); e_put(c, "\n"); break;	/* a line of white space */
	case 6: if (!e_room(c, K + 12)) return 0; e_pair(c); e_put(c, "\n"); e_rep(c, "\n", k); e_pair(c); e_put(c, "\n"); break;	/* k empty lines */
	case 7: if (!e_room(c, 3 * K)) return 0; for (int i = 0; i < k; i++) { e_pair(c); e_put(c, "\n"); } break;			/* k lines */
	case 8: if (!e_room(c, 2 * K + 1)) return 0; for (int i = 0; i < k; i++) e_pair(c); e_put(c, "\n"); break;			/* k pairs on a line */
	case 9: if (!e_room(c, 3 * K + 1)) return 0; for (int i = 0; i < k; i++) { e_pair(c); e_put(c, " "); } e_put(c, "\n"); break;	/* the same, separated */
	case 10: if (!e_room(c, K + 12)) return 0; e_rep(c, "0", k); e_put(c, ":"); e_pair(c); e_put(c, "\n"); break;		/* an address of k digits */
	case 11: if (!e_room(c, K + 16)) return 0; e_pair(c); e_put(c, "\n"); e_rep(c, "4f", k); e_put(c, ": "); e_pair(c); e_put(c, " "); e_pair(c); e_put(c, "\n"); break;
	case 12: if (!e_room(c, 7 * K)) return 0; for (int i = 0; i < k; i++) { e_put(c, "10: "); e_pair(c); e_put(c, "\n"); } break;	/* k prefixed lines */
	case 13: if (!e_room(c, 4 * K + 1)) return 0; for (int i = 0; i < k; i++) { e_put(c, "0x"); e_pair(c); } e_put(c, "\n"); break;	/* k prefixed pairs */
	case 14: if (!e_room(c, 3 * K + 8)) return 0; for (int i = 0; i < k; i++) { e_pair(c); e_put(c, "\t"); } e_put(c, "\n"); e_pair(c); e_put(c, "\n"); break;	/* a long line, then another */
	case 15: if (!e_room(c, K + 8)) return 0; e_rep(c, "z", k); e_put(c, "\n"); e_pair(c); e_put(c, "\n"); break;		/* a long malformed line: safety only */
	}
	c->text[c->n] = 0;
	return 1;
}

static int part_e(void)
{
	static case_t c; static res_t r;
	static const int kq[] = { 127, 128, 129, 255, 256, 257, 258, 511, 512, 513 }, kt[] = { 32767, 32768, 32769, 65535, 65536, 65537 };
	static const char *wsu[] = { " ", "\t", "\r", " \t" };
	memset(&c, 0, offsetof(case_t, text) + 1); c.part = 'e';
	part_begin();
	uint64_t idx = 0, nt = 0, nskip = 0;
	int sampled = 0;
	for (int t = 0; t < E_NTMPL; t++)
		for (int w = 0; w < (t <= 5 ? LENGTHOF(wsu) : 1); w++)
			for (int ki = 0; ki < LENGTHOF(kq) + (vx_thorough() ? LENGTHOF(kt) : 0); ki++) {
				int k = ki < LENGTHOF(kq) ? kq[ki] : kt[ki - LENGTHOF(kq)];
				idx++;
				if (!vx_mine(idx * 7 + (uint64_t)(t * 4 + w))) continue;	/* every worker gets texts of every size */
				if (must_stop('e')) { vx_count("e_texts", nt); return 0; }
				if (!e_build(&c, t, k, wsu[w])) { nskip++; continue; }
				c.place = 0;
				for (c.mode = 1; c.mode <= 2; c.mode++) do_case(&c, &r);
				nt++;
				if (t != 15 && !r.in_grammar) { fprintf(stderr, "c18: long-text generator left the grammar (template %d)\n", t); _exit(6); }
				if (!sampled && k == 256) { sampled = 1; sample_case("e long text", &c, &r); }
			}
	vx_count("e_texts", nt);
	vx_count("e_texts_skipped_longer_than_MAXT", nskip);
	return 1;
}

/* -------------------------------------------------------------------- main */

static void do_replay(const char *rp)
{
	static case_t c; static res_t r;
	const char *f;
	memset(&c, 0, offsetof(case_t, text) + 1);
	replaying = 1;
	f = vx_replay_field(rp, "part"); c.part = f ? f[0] : 0;
	f = vx_replay_field(rp, "mode"); c.mode = f ? atoi(f) : 1;
	f = vx_replay_field(rp, "place"); c.place = f ? atoi(f) : 0;
	if (c.part == 'a') {
		f = vx_replay_field(rp, "len"); c.len = f ? atoi(f) : 0;
		f = vx_replay_field(rp, "pos"); c.pos = f ? atoi(f) : 0;
		f = vx_replay_field(rp, "val"); c.val = f ? atoi(f) : 0;
		f = vx_replay_field(rp, "bg"); c.bg = f ? atoi(f) : 0;
		if (c.len < 0 || c.len > A_MAXBYTES || c.pos < 0 || (c.len && c.pos >= c.len) || c.bg < 0 || c.bg >= NBG) { fprintf(stderr, "c18: bad replay\n"); _exit(3); }
	} else if (c.part >= 'b' && c.part <= 'e') {
		/* the text can be longer than vx_replay_field's buffer: parse it here */
		const char *p = strstr(rp, "\nhex=");
		if (!p) { fprintf(stderr, "c18: bad replay (no hex=)\n"); _exit(3); }
		p += 5;
		while (isxdigit((unsigned char)p[0]) && isxdigit((unsigned char)p[1]) && c.n < MAXT) {
			c.text[c.n++] = (uint8_t)(ref_hexval((unsigned char)p[0]) * 16 + ref_hexval((unsigned char)p[1])); p += 2;
		}
		c.text[c.n] = 0;
	} else { fprintf(stderr, "c18: bad replay (part)\n"); _exit(3); }
	if (c.mode != 1 && c.mode != 2) { fprintf(stderr, "c18: bad replay (mode)\n"); _exit(3); }
	if (c.place != 0 && c.place != 1) { fprintf(stderr, "c18: bad replay (place)\n"); _exit(3); }
	const char *k = eval_case(&c, &r);
	vx_count("evaluations", 1);
	if (k) report(&c, k);
	else {
		vx_sb sb = {0}; describe_case(&sb, &c);
		vx_note("replayed case passes: (%c) %s", c.part, sb.s); free(sb.s);
	}
}

int main(int argc, char **argv)
{
	vx_init(argc, argv);
	vx_install_handlers();
	vx_watchdog(2.0);
	mem_setup();
	SINK.cap = 16 * (size_t)A_MAXBYTES + 4096;
	SINK.buf = malloc(SINK.cap);
	if (!SINK.buf) _exit(3);
	vx_set_init(&seen_all, 14); vx_set_init(&seen_own, 12);
	char *rp = vx_read_replay();
	if (rp) { do_replay(rp); vx_finish(); fflush(stdout); _exit(0); }

	int len_done = -1, len_done2 = -1;
	int a_ok = part_a();
	int b_ok_ = part_b();
	int c_ok = part_c(&len_done, &len_done2);
	int d_ok = part_d();
	int e_ok = part_e();
	vx_and("exhaustive", a_ok && b_ok_ && c_ok && d_ok && e_ok);
	vx_and("a_complete", a_ok); vx_and("b_complete", b_ok_); vx_and("c_complete", c_ok); vx_and("d_complete", d_ok); vx_and("e_complete", e_ok);
	vx_min("c_max_len_complete", (uint64_t)(len_done < 0 ? 0 : len_done));
	vx_min("c2_max_len_complete", (uint64_t)(len_done2 < 0 ? 0 : len_done2));
	vx_count("evaluations", n_eval);
	for (int p = 0; p < 5; p++) {
		char name[64];
		snprintf(name, sizeof(name), "%c_evaluations", 'a' + p); vx_count(name, n_eval_part[p]);
		snprintf(name, sizeof(name), "%c_evaluations_values_checked", 'a' + p); vx_count(name, n_valchk_part[p]);
		snprintf(name, sizeof(name), "%c_evaluations_failing", 'a' + p); vx_count(name, n_viol_part[p]);
	}
	vx_count("distinct", seen_own.n);
	vx_count("distinct_upper_bound_sum_per_worker", seen_all.n);
	vx_max("distinct_seen_by_one_worker_max", seen_all.n);
	vx_count("evaluations_trivial_observation_only_minus1", n_trivial_obs);
	vx_count("calls_hex_get_byte", n_calls);
	vx_count("calls_hex_dump_to_file", n_dumps);
	vx_count("a_dumps_longer_than_MAXT_not_judged", n_dump_unjudged_long);
	vx_count("results_byte", n_bytes);
	vx_count("results_minus1", n_minus1);
	vx_count("faults_caught", n_faults);
	vx_count("watchdog_hits", (uint64_t)vx_hangs_seen);
	vx_count("minimiser_evaluations", n_min_evals);
	vx_count("b_failing_evaluations_plain_line_before_prefixed_line", b_fail_mixed);
	vx_count("b_failing_evaluations_other_texts", b_fail_other);
	vx_count("failure_classes_seen", (uint64_t)nkslots);
	vx_max("library_static_bytes", (uint64_t)vx_lib_size());
	vx_note("distinct = observation tuples (part, fault, full sequence of hex_get_byte results [, dump text]) with at least one "
		"returned byte or dumped character; tuples are counted only by the worker owning their hash (a1 tuples are unique to the worker "
		"that has the array length), so the figure is a lower bound of the global count (distinct_upper_bound_sum_per_worker is the upper bound)");
	vx_finish();
	/* streams abandoned after a fault inside hex_dump_to_file are in an unknown state: they are not flushed at exit */
	fflush(stdout);
	_exit(0);
}

/*
 * C19 - rotary encoder count equals net detent crossings for any signal sequence.
 *
 * Two exhaustive enumerations over the real rotenc.c:
 *
 *  part 1  every (last_state, 16-bit internal position, latched count, next
 *          state) start point - independent of reachability - followed by every
 *          second next state: the +1 / -1 / 0 rule on the internal position and
 *          the "latch only at the detent state" rule, for one and two steps
 *          (the second step makes a wrong last_state update observable without
 *          looking at that field).
 *
 *  part 2  vx_bfs to a FIXPOINT from the reset state over all input sequences
 *          on the ghost-augmented machine: live state = rotenc_t + ghost
 *            T  true position in quarter steps as a wide (never wrapping) integer
 *            L  true latched position in clicks = floor(T/4) at the last decode
 *               whose state was the detent state 0 (wide integer)
 *            valid  no invalid two-bit jump so far (so detents sit at T%4==0)
 *          Scope guard: a step is enabled only if afterwards |T - 4L| <= 4W
 *          quarter steps (drift window of W clicks around the last detent
 *          reading; with invalid jumps drift is otherwise unbounded and no 8-bit
 *          latch could be right).  Canonical state = (rotenc_t fields,
 *          T mod 2^16, T - 4L, valid): every oracle and the guard depend on T and
 *          L only through these, so merged states have identical futures.
 *          After every decode: internal == T mod 2^16, rotenc_count == L mod 256,
 *          rotenc_count14 == L mod 2^14, low 8 bits agree, and - while the
 *          history has no invalid jump - both readings are within one click of
 *          the true position T/4 (circular distance in their own modulus).
 *
 * Read-only oracles (count14, agreement, one-click) do not prune the search: the
 * state after them is still well defined.  A wrong internal position prunes.
 * Violations are grouped in root-cause classes; only the first (= shortest,
 * BFS order is deterministic) history of each class becomes a signature, the
 * rest is counted per class.
 */
#include "vx.h"

#include "rotenc.c"

/* ------------------------------------------------------------ reference model */

/* position of a 2-bit state on the clockwise cycle 00 -> 01 -> 11 -> 10 -> 00 */
static const int8_t cyc[4] = { 0, 1, 3, 2 };
enum { K_REPEAT, K_CW, K_JUMP, K_ACW };
static const char *kname[4] = { "repeat", "cw", "invalid_jump", "acw" };
static int m_kind(int from, int to) { return (cyc[to] - cyc[from]) & 3; }
static int m_delta(int from, int to) { int k = m_kind(from, to); return k == K_CW ? 1 : k == K_ACW ? -1 : 0; }
static int64_t floordiv4(int64_t t) { return t >= 0 ? t / 4 : -((-t + 3) / 4); }
static uint32_t umod(int64_t v, int64_t m) { int64_t r = v % m; if (r < 0) r += m; return (uint32_t)r; }
static uint32_t circ(uint32_t a, uint32_t b, uint32_t m) { uint32_t d = (a + m - b) % m, e = (b + m - a) % m; return d < e ? d : e; }

/* ------------------------------------------------------- violation classes */

#define MAXCLASS 64
static struct { char key[64]; uint64_t hits; } classes[MAXCLASS];
static int nclasses;
/* returns 1 if this is the first hit of the class (caller then reports it) */
static int class_hit(const char *key)
{
	for (int i = 0; i < nclasses; i++) if (!strcmp(classes[i].key, key)) { classes[i].hits++; return 0; }
	if (nclasses >= MAXCLASS) return 0;
	snprintf(classes[nclasses].key, sizeof(classes[nclasses].key), "%s", key);
	classes[nclasses++].hits = 1;
	return 1;
}

/* ------------------------------------------------------------------ part 1 */

static volatile int cur_last, cur_next, cur_next2; static volatile unsigned cur_int, cur_cnt;

static void p1_fail(const char *clause, const char *detail, int last, unsigned internal, unsigned count, int next, int next2,
		    const char *fmt, ...) __attribute__((format(printf, 8, 9)));
static void p1_fail(const char *clause, const char *detail, int last, unsigned internal, unsigned count, int next, int next2,
		    const char *fmt, ...)
{
	char sig[256], rep[256];
	va_list ap; va_start(ap, fmt); char *m = vx_vfmt(fmt, ap); va_end(ap);
	/* coarse: clause + what went wrong (root cause class). The smallest start point of the reporting partition is in
	 * the message and the replay; partitions are (last,next) pairs, so the same class may be met by several workers. */
	snprintf(sig, sizeof(sig), "C19/step|%s|%s", clause, detail);
	snprintf(rep, sizeof(rep), "part=1\nlast=%d\ninternal=%u\ncount=%u\nnext=%d\nnext2=%d\n", last, internal, count, next, next2);
	vx_violation(sig, rep, "%s: %s -- start {last_state=%d, internal_count=%u, count=%u}, decode(%d)%s", clause, m,
		     last, internal, count, next, next2 >= 0 ? " then decode(next2), see replay" : "");
	free(m);
}

/* check one decode step r0 --state--> r1 against the model; returns 1 on violation */
static int p1_check_step(const rotenc_t *r0, rotenc_t *r1, int from, int to, int last, unsigned internal, unsigned count, int next, int next2)
{
	char d[96];
	int want = m_delta(from, to);
	int got = (int16_t)(uint16_t)(r1->internal_count - r0->internal_count);
	if (got != want) {
		snprintf(d, sizeof(d), "%s: position changed by %+d, must be %+d", kname[m_kind(from, to)], got, want);
		p1_fail("position", d, last, internal, count, next, next2, "internal %u -> %u", r0->internal_count, r1->internal_count);
		return 1;
	}
	unsigned clicks = ((uint16_t)(r0->internal_count + want)) >> 2;
	uint8_t c = rotenc_count(r1);
	uint16_t c14 = rotenc_count14(r1);
	if (to == 0) {
		if (c != (clicks & 0xff)) {
			p1_fail("latch", "count is not the position in whole clicks after arriving at the detent", last, internal, count, next, next2, "rotenc_count=%u, position is %u clicks", c, clicks);
			return 1;
		}
		if (c14 != (clicks & 0x3fff)) {
			p1_fail("latch14", "count14 is not the position in whole clicks after arriving at the detent", last, internal, count, next, next2, "rotenc_count14=%u, position is %u clicks", c14, clicks & 0x3fff);
			return 1;
		}
	} else if (c != rotenc_count((rotenc_t *)r0)) {
		p1_fail("latch", "count changed away from the detent", last, internal, count, next, next2,
			"rotenc_count %u -> %u on a decode of state %d", rotenc_count((rotenc_t *)r0), c, to);
		return 1;
	}
	if ((c14 & 0xff) != c || c14 > 0x3fff) {
		p1_fail("agree-low8", (c14 > 0x3fff) ? "count14 out of 14-bit range" : "low 8 bits of count14 differ from count",
			last, internal, count, next, next2, "rotenc_count=%u rotenc_count14=%u", c, c14);
		return 1;
	}
	return 0;
}

static uint64_t p1_unreachable_skipped, p1_cases, p1_prestates, p1_steps, p1_kind[4], p1_latches;
static vx_set p1_obs;

/* one start point + first step + all second steps; returns 1 on violation */
static int p1_case(int last, unsigned internal, unsigned count, int next, int only_next2)
{
	/* scope: reachable decoder states only. While last_state is the detent state the latched count IS the current
	 * position (it was written by the decode that stored last_state); any other combination cannot arise. */
	if (last == 0 && count != ((internal >> 2) & 0xff)) { p1_unreachable_skipped++; return 0; }
	rotenc_t r0 = { (uint8_t)last, (uint8_t)count, (uint16_t)internal }, r1 = r0;
	rotenc_decode(&r1, (uint8_t)next);
	p1_cases++; p1_steps++; p1_prestates += next == 0; p1_kind[m_kind(last, next)]++; p1_latches += next == 0;
	if (p1_check_step(&r0, &r1, last, next, last, internal, count, next, -1)) return 1;
	for (int n2 = 0; n2 < 4; n2++) {
		if (only_next2 >= 0 && n2 != only_next2) continue;
		rotenc_t r2 = r1;
		cur_next2 = n2;
		rotenc_decode(&r2, (uint8_t)n2);
		p1_steps++; p1_kind[m_kind(next, n2)]++; p1_latches += n2 == 0;
		if (p1_check_step(&r1, &r2, next, n2, last, internal, count, next, n2)) return 1;
	}
	return 0;
}

static const unsigned quick_counts[] = { 0, 1, 0x7f, 0x80, 0xfe, 0xff };
#define NQC (sizeof(quick_counts) / sizeof(quick_counts[0]))

static void part1(int last, int next)
{
	uint64_t bad = 0;
	vx_hasher h;
	cur_last = last; cur_next = next;
	if (VX_TRY) {
		for (unsigned internal = 0; internal < 65536 && bad < 4; internal++) {
			cur_int = internal;
			if (vx_thorough()) {
				for (unsigned c = 0; c < 256 && bad < 4; c++) { cur_cnt = c; bad += (uint64_t)p1_case(last, internal, c, next, -1); }
			} else {
				/* the latched count is write-only for rotenc_decode: a handful of values + the two natural ones */
				for (unsigned i = 0; i < NQC + 2 && bad < 4; i++) {
					unsigned c = i < NQC ? quick_counts[i] :
						     i == NQC ? ((internal >> 2) & 0xff) : (((internal >> 2) + 1) & 0xff);
					cur_cnt = c; bad += (uint64_t)p1_case(last, internal, c, next, -1);
				}
			}
			/* observation classes really seen: (transition kind, latch?, which wrap point the step crossed) */
			int dl = m_delta(last, next);
			unsigned after = (uint16_t)(internal + dl);
			int wrap16 = (internal == 0xffff && after == 0) || (internal == 0 && after == 0xffff);
			int wrap8 = dl && (internal >> 10) != (after >> 10);
			vx_h_init(&h); vx_h_u64(&h, (uint64_t)last); vx_h_u64(&h, (uint64_t)next); vx_h_u64(&h, (uint64_t)wrap16); vx_h_u64(&h, (uint64_t)wrap8);
			vx_h_u64(&h, after & 3);
			vx_set_add(&p1_obs, vx_h_done(&h));
			if (wrap16) vx_count("p1_steps_across_16bit_wrap", 1);
			if (wrap8) vx_count("p1_steps_across_256click_boundary", 1);
		}
		VX_END;
	} else {
		VX_END;
		char sig[128], rep[200];
		snprintf(sig, sizeof(sig), "C19/step|fault|%d->%d|%s", last, next, vx_fault_msg);
		snprintf(rep, sizeof(rep), "part=1\nlast=%d\ninternal=%u\ncount=%u\nnext=%d\nnext2=%d\n", cur_last, cur_int, cur_cnt, cur_next, cur_next2);
		vx_violation(sig, rep, "fault in rotenc_decode/rotenc_count14: %s", vx_fault_msg);
	}
	if (bad >= 4) { vx_and("exhaustive", 0); vx_note("part 1 partition %d->%d stopped early after repeated violations", last, next); }
}

/* ------------------------------------------------------------------ part 2 */

static struct live {
	rotenc_t r;
	int32_t T;		/* ghost: true position, quarter steps, never wraps */
	int32_t L;		/* ghost: true latched position, clicks, never wraps */
	uint8_t mlast;		/* model's idea of the previous state */
	uint8_t valid;		/* no invalid two-bit jump in the history */
	uint8_t pad[2];
} G;

static int W;				/* drift window in clicks */
static uint64_t p2_ops[4], p2_kind[4], p2_oneclick_checked, p2_oneclick_skipped;
static uint64_t p2_wrap16_up, p2_wrap16_down, p2_wrap8_up, p2_wrap8_down;
static int32_t p2_Tmin, p2_Tmax;
static vx_set p2_obs, p2_pos;
static vx_bfs B;

static void m_next(int op, int32_t *T, int32_t *L)
{
	*T = G.T + m_delta(G.mlast, op);
	*L = op == 0 ? (int32_t)floordiv4(*T) : G.L;
}
static int op_enabled(int op)
{
	int32_t T, L; m_next(op, &T, &L);
	int32_t d = T - 4 * L;
	return d >= -4 * W && d <= 4 * W;
}
static void op_describe(int op, vx_sb *sb) { vx_sb_printf(sb, "%d", op); }
static void op_canon(vx_hasher *h)
{
	vx_h_u64(h, ((uint64_t)G.r.last_state << 32) | ((uint64_t)G.r.count << 16) | G.r.internal_count);
	vx_h_u64(h, ((uint64_t)umod(G.T, 65536) << 32) | ((uint64_t)G.mlast << 8) | G.valid);
	vx_h_u64(h, (uint64_t)(int64_t)(G.T - 4 * G.L));
}

/* "1320" style history, shortened deterministically when long */
static void short_history(const char *full, char *out, size_t n)
{
	size_t l = strlen(full);
	if (l <= 48) { snprintf(out, n, "reset,%s", full); return; }
	vx_hasher h; vx_h_init(&h); vx_h_bytes(&h, full, l); vx_h128 k = vx_h_done(&h);
	snprintf(out, n, "reset,%.24s...%s(len=%zu,id=%08x)", full, full + l - 24, l, (unsigned)(k.a & 0xffffffffu));
}

/* report a violation of the current BFS transition, first hit of its class only */
__attribute__((format(printf, 3, 4)))
static void p2_fail(const char *cls, const char *detail, const char *fmt, ...)
{
	if (!class_hit(cls)) return;
	vx_sb hist = {0}, rep = {0}, sig = {0}, rp2 = {0};
	char sh[160];
	va_list ap; va_start(ap, fmt); char *m = vx_vfmt(fmt, ap); va_end(ap);
	/* vx_bfs_history() keeps at most 4095 operations; histories here can be ~33000 long */
	static uint32_t ops[70000];
	int n = vx_store_trace(&B.st, B.cur, ops, 69999);
	ops[n++] = (uint32_t)B.cur_op;
	vx_sb_printf(&rep, "config=%s\nops=", B.name);
	for (int i = 0; i < n; i++) { vx_sb_printf(&hist, "%u", ops[i]); vx_sb_printf(&rep, "%s%u", i ? " " : "", ops[i]); }
	vx_sb_printf(&rep, "\n");
	short_history(hist.s, sh, sizeof(sh));
	vx_sb_printf(&sig, "C19/seq|%s|%s|min:decode %s", cls, detail, sh);
	vx_sb_printf(&rp2, "part=2\n%s", rep.s);
	vx_violation(sig.s, rp2.s, "%s: %s -- shortest history from reset: states %s; ghost T=%d quarter steps, latched L=%d clicks; "
		     "rotenc_t={last_state=%u,count=%u,internal_count=%u}", cls, m, sh, G.T, G.L, G.r.last_state, G.r.count, G.r.internal_count);
	free(m); free(hist.s); free(rep.s); free(sig.s); free(rp2.s);
}

static int op_apply(int op)
{
	uint8_t c; uint16_t c14;
	int32_t T0 = G.T;
	p2_ops[op]++;
	if (VX_TRY) {
		rotenc_decode(&G.r, (uint8_t)op);
		c = rotenc_count(&G.r);
		c14 = rotenc_count14(&G.r);
		VX_END;
	} else {
		VX_END;
		p2_fail("fault", "fault", "%s", vx_fault_msg);
		return 1;
	}
	int kind = m_kind(G.mlast, op);
	p2_kind[kind]++;
	int32_t T, L; m_next(op, &T, &L);
	G.T = T; G.L = L; G.mlast = (uint8_t)op;
	if (kind == K_JUMP) G.valid = 0;
	if (T < p2_Tmin) p2_Tmin = T;
	if (T > p2_Tmax) p2_Tmax = T;
	if (T != T0) {
		int64_t a = floordiv4(T0), b = floordiv4(T);
		if (umod(T0, 65536) == 65535 && umod(T, 65536) == 0) p2_wrap16_up++;
		if (umod(T0, 65536) == 0 && umod(T, 65536) == 65535) p2_wrap16_down++;
		if (b > a && umod(b, 256) == 0) p2_wrap8_up++;
		if (b < a && umod(a, 256) == 0) p2_wrap8_down++;
	}
	vx_hasher h; vx_h_init(&h);
	vx_h_u64(&h, ((uint64_t)op << 48) | ((uint64_t)G.r.internal_count << 32) | ((uint64_t)c << 16) | c14);
	vx_set_add(&p2_obs, vx_h_done(&h));
	vx_h_init(&h); vx_h_u64(&h, umod(T, 65536)); vx_set_add(&p2_pos, vx_h_done(&h));

	/* --- oracle --- */
	char d[96];
	if (G.r.internal_count != umod(T, 65536)) {
		snprintf(d, sizeof(d), "%s step: internal-true=%d", kname[kind], (int)(int16_t)(uint16_t)(G.r.internal_count - umod(T, 65536)));
		char cls[64]; snprintf(cls, sizeof(cls), "position:%s", kname[kind]);
		p2_fail(cls, d, "internal_count=%u, true position mod 2^16=%u", G.r.internal_count, umod(T, 65536));
		return 1;	/* model and implementation have parted: do not expand */
	}
	uint32_t w8 = umod(L, 256), w14 = umod(L, 16384);
	if (c != w8) {
		snprintf(d, sizeof(d), "got-want=%d", (int)c - (int)w8);
		p2_fail(op == 0 ? "count:at-detent" : "count:off-detent", d, "rotenc_count=%u, latched position mod 256=%u", c, w8);
	}
	if (c14 != w14) {
		int dd = (int)umod((int64_t)c14 - (int64_t)w14, 16384);
		if (dd > 8192) dd -= 16384;
		if ((dd == 256 || dd == -256) && c == w8)
			/* one root cause: high bits follow the live position while the low byte is latched */
			p2_fail("count14:high-bits-not-latched", "got-want=+-256 (mod 2^14), low byte right",
				"rotenc_count14=%u, latched position mod 2^14=%u (rotenc_count=%u), live clicks=%u", c14, w14, c, umod(floordiv4(T), 16384));
		else {
			snprintf(d, sizeof(d), "got-want=%d (mod 2^14)", dd);
			p2_fail(op == 0 ? "count14:at-detent" : "count14:off-detent", d, "rotenc_count14=%u, latched position mod 2^14=%u", c14, w14);
		}
	}
	if ((c14 & 0xff) != c || c14 > 0x3fff)
		p2_fail("agree-low8", c14 > 0x3fff ? "count14 out of 14-bit range" : "low 8 bits differ",
			"rotenc_count=%u rotenc_count14=%u", c, c14);
	if (G.valid) {
		p2_oneclick_checked++;
		uint32_t d8 = circ(4u * c, umod(T, 1024), 1024), d14 = circ(4u * (c14 & 0x3fff), umod(T, 65536), 65536);
		if (d8 > 4) {
			snprintf(d, sizeof(d), "off by %u quarter steps", d8);
			p2_fail("one-click:count", "no invalid jump in history", "rotenc_count=%u is %u quarter steps from the true position %d/4 (mod 256 clicks)", c, d8, T);
		}
		if (d14 > 4) {
			snprintf(d, sizeof(d), "off by %u quarter steps", d14);
			p2_fail("one-click:count14", "no invalid jump in history", "rotenc_count14=%u is %u quarter steps from the true position %d/4 (mod 2^14 clicks)", c14, d14, T);
		}
	} else p2_oneclick_skipped++;
	return 0;
}

static void p2_setup(int w)
{
	static char name[16];
	memset(&G, 0, sizeof(G));
	rotenc_t init = ROTENC_VAR_INIT;
	G.r = init; G.valid = 1;
	W = w;
	snprintf(name, sizeof(name), "W%d", w);
	memset(&B, 0, sizeof(B));
	B.live = &G; B.size = sizeof(G); B.nops = 4; B.enabled = op_enabled; B.apply = op_apply;
	B.canon = op_canon; B.describe = op_describe; B.name = name;
}

static void part2(int w)
{
	p2_setup(w);
	vx_set_init(&p2_obs, 20); vx_set_init(&p2_pos, 18);
	vx_bfs_run(&B);
	vx_count("states", B.states); vx_count("transitions", B.transitions); vx_count("traces", B.transitions);
	vx_count("distinct", p2_obs.n);
	vx_count("p2_states", B.states); vx_count("p2_transitions", B.transitions);
	vx_count("p2_distinct_observations_op_internal_count_count14", p2_obs.n);
	vx_count("p2_distinct_true_positions_mod_65536", p2_pos.n);
	vx_count("p2_scope_guard_disabled_steps", B.disabled);
	vx_count("p2_drift_window_clicks", (uint64_t)w);
	vx_and("exhaustive", B.fixpoint && !B.capped);
	vx_and("p2_fixpoint", B.fixpoint && !B.capped);
	vx_max("p2_bfs_depth", (uint64_t)B.depth_done);
	for (int i = 0; i < 4; i++) {
		char nm[64];
		snprintf(nm, sizeof(nm), "p2_op_decode_%d", i); vx_count(nm, p2_ops[i]);
		snprintf(nm, sizeof(nm), "p2_kind_%s", kname[i]); vx_count(nm, p2_kind[i]);
	}
	vx_count("p2_oneclick_checked", p2_oneclick_checked);
	vx_count("p2_oneclick_skipped_after_invalid_jump", p2_oneclick_skipped);
	vx_count("p2_steps_across_16bit_wrap_up", p2_wrap16_up); vx_count("p2_steps_across_16bit_wrap_down", p2_wrap16_down);
	vx_count("p2_steps_across_256click_boundary_up", p2_wrap8_up); vx_count("p2_steps_across_256click_boundary_down", p2_wrap8_down);
	vx_count("p2_ghost_T_min_negated", (uint64_t)(-(int64_t)p2_Tmin)); vx_count("p2_ghost_T_max", (uint64_t)p2_Tmax);
	if (B.capped) vx_note("part 2 stopped before the fixpoint (deadline / state cap / violation cap): states=%llu depth completed=%d",
			      (unsigned long long)B.states, B.depth_done);
	/* sample: the deepest state's history */
	static uint32_t ops[70000];
	int n = vx_store_trace(&B.st, B.st.n - 1, ops, 70000);
	char *full = malloc((size_t)n + 1); for (int i = 0; i < n; i++) full[i] = (char)('0' + ops[i]); full[n] = 0;
	char sh[160]; short_history(full, sh, sizeof(sh)); free(full);
	vx_sample("part 2 (W=%d clicks): %llu states, %llu transitions, fixpoint=%d, BFS depth %d, ghost T range [%d,%d] quarter steps, "
		  "%llu distinct positions mod 2^16; deepest history: states %s", w, (unsigned long long)B.states,
		  (unsigned long long)B.transitions, B.fixpoint, B.depth_done, p2_Tmin, p2_Tmax, (unsigned long long)p2_pos.n, sh);
	vx_bfs_free(&B);
}

/* ---------------------------------------------------------------------- main */

static int wparam(void)
{
	const char *e = getenv("C19_W");
	if (e && atoi(e) > 0) return atoi(e);
	return vx_thorough() ? 100 : 2;
}

int main(int argc, char **argv)
{
	vx_init(argc, argv);
	vx_install_handlers();
	vx_watchdog(2.0);
	char *rp = vx_read_replay();
	if (rp) {
		const char *f = vx_replay_field(rp, "part");
		if (f && atoi(f) == 1) {
			int last = atoi(vx_replay_field(rp, "last")); unsigned internal = (unsigned)atoi(vx_replay_field(rp, "internal"));
			unsigned count = (unsigned)atoi(vx_replay_field(rp, "count")); int next = atoi(vx_replay_field(rp, "next"));
			int next2 = atoi(vx_replay_field(rp, "next2"));
			if (VX_TRY) { p1_case(last & 3, internal & 0xffff, count & 0xff, next & 3, next2 < 0 ? 4 : next2); VX_END; }
			else {
				VX_END;
				char sig[128]; snprintf(sig, sizeof(sig), "C19/step|fault|%d->%d|%s", last, next, vx_fault_msg);
				vx_violation(sig, rp, "fault: %s", vx_fault_msg);
			}
		} else if (f && atoi(f) == 2) {
			const char *cn = vx_replay_field(rp, "config");
			int w = cn && cn[0] == 'W' ? atoi(cn + 1) : 2;
			p2_setup(w);
			vx_set_init(&p2_obs, 12); vx_set_init(&p2_pos, 12);
			vx_bfs_replay(&B, rp);
		}
		vx_finish();
		return 0;
	}
	vx_set_init(&p1_obs, 10);
	/* partitions 0..15: part 1 by (last,next); partition 16: the BFS (one search, one worker) */
	for (int p = 0; p < 16; p++) {
		if (!vx_mine((uint64_t)p)) continue;
		part1(p >> 2, p & 3);
		if (vx_deadline_passed()) { vx_and("exhaustive", 0); vx_note("part 1 cut short by the deadline"); break; }
	}
	if (p1_cases) {
		vx_count("states", p1_prestates);	/* distinct start states (last, internal, count); counted in the next==0 partitions only */
		vx_count("transitions", p1_steps); vx_count("traces", p1_steps);
		vx_count("p1_start_points", p1_cases); vx_count("p1_decode_steps", p1_steps);
		vx_count("p1_distinct_step_classes", p1_obs.n);
		vx_count("p1_latches_at_detent", p1_latches);
		vx_count("p1_scope_guard_unreachable_start_states_skipped", p1_unreachable_skipped);
		for (int i = 0; i < 4; i++) { char nm[64]; snprintf(nm, sizeof(nm), "p1_kind_%s", kname[i]); vx_count(nm, p1_kind[i]); }
		if (vx_mine(0)) vx_sample("part 1: start {last_state=0, internal_count=0..65535, count=%s}, decode(0) then decode(0..3): +1/-1/0 rule and latch rule",
					  vx_thorough() ? "0..255" : "0,1,127,128,254,255,clicks,clicks+1");
	}
	if (vx_mine(16)) part2(wparam());
	for (int i = 0; i < nclasses; i++) {
		char nm[64]; snprintf(nm, sizeof(nm), "p2_violating_transitions[%.40s]", classes[i].key);
		vx_count(nm, classes[i].hits);
	}
	vx_finish();
	return 0;
}

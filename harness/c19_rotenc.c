/*
 * C19 - rotary encoder count equals net detent crossings for any signal sequence.
 *
 * rotenc.c is linked as an object of its own (lib=['rotenc.c']); this file sees only <librfn/rotenc.h>. Every decoder
 * state used anywhere below is REACHED by real rotenc_decode calls from ROTENC_VAR_INIT - no field of rotenc_t is ever
 * written by the harness, no field order / width / completeness is assumed. The only field read is internal_count (the
 * "internal position" of the statement), and only through differences modulo 2^16. Copies of a decoder state are copies
 * of the whole rotenc_t image plus the image of the library's statics.
 *
 * One step function (c19_step) drives the real code and a wide-integer ghost
 *     T  true position in quarter steps (never wraps)     L  true latched position in clicks = floor(T/4) at the last
 *     decode whose state was the detent state 0           valid  no invalid two-bit jump so far
 * over the alphabet  0..3 = rotenc_decode(that state) followed by rotenc_count,   r = rotenc_count14 (a pure read)
 * and judges after a decode: position moved by exactly +1 / -1 / 0 (difference mod 2^16); rotenc_count (read into an
 * unsigned) <= 255 and == L mod 256; within one click of T/4 while valid.   After a read: the read moved neither the
 * position nor rotenc_count; count14 <= 0x3fff; count14 == L mod 2^14 while |T - 4L| <= 4*127 quarter steps (scope); low
 * 8 bits agree with rotenc_count; within one click of T/4 while valid.
 *
 * Enumerations (each bounded-exhaustive, partitioned over the workers):
 *  seq    vx_bfs to a FIXPOINT from reset over all sequences of the 5 operations, a decode being enabled while afterwards
 *         |T - 4L| <= 4W quarter steps. Canonical state = WHOLE rotenc_t image + statics of rotenc.c + (T mod 2^16,
 *         T - 4L, previous state, valid). Reads being operations of their own, every read pattern (never / once / twice
 *         in a row / after any number of decodes) is part of the space.
 *  step   one and two further decodes (each followed by a read) from EVERY reachable decoder state (last_state, 16-bit
 *         position, latched count): the states are visited by real paths - plain rotation cw / acw around the whole
 *         16-bit circle, started on either phase (with / without an initial invalid jump), and for each latched count c
 *         a rotation to click c followed by laps that never visit the detent (3,2,1 / 3,1,2) around the whole circle.
 *  walk   8 walkers (cw / acw x phase x "reads count14 after every decode" / "never reads it") around the whole 14-bit
 *         click circle; the never-reading walkers take a throw-away copy at every step and read twice there (first read
 *         after k clicks for every k). At bases (arrivals at the detent) chosen next to the multiples of 128 clicks:
 *    drift  6 lap patterns that never visit the detent, out to +-127 clicks from the base, count14 against the ghost
 *           latch after every decode (on the main line or on a throw-away copy, as the walker does)
 *    gap    300 clicks of plain rotation either way without reading count14 on the main line; read twice on a copy at
 *           every step
 *    rest   at each of the 4 states: 300 identical polls, after each poll every one-step continuation on a copy
 *  dwell  every prefix of <= P decodes from reset x each of the 4 states polled N times x after every poll every
 *         continuation of <= Q decodes, main line reading after every decode or never (hidden counters of idle polls):
 *         many prefixes x 301 polls x deep continuations, and few prefixes x 66001 polls (past 2^16) x one-decode ones
 *
 * Fault capture: the families arm one VX_TRY per case (a visited state with its probes, one lap script, one dwell run); a
 * fault is reported as a violation with its history, marks the run non-exhaustive and ends that path. The search arms the
 * library calls only. c19_step advances vx_opseq, so the watchdog can only ever see a library call standing still.
 *
 * Violations are grouped in root-cause classes (family|clause); only the first history of each class becomes a signature
 * (BFS order and the family enumeration orders are deterministic), the rest is counted. Every violation replays from its
 * complete operation history from reset.
 */
#include "vx.h"

#include <librfn/rotenc.h>

/* ------------------------------------------------------------ reference model */

/* position of a 2-bit state on the clockwise cycle 00 -> 01 -> 11 -> 10 -> 00 */
static const int8_t c19_cyc[4] = { 0, 1, 3, 2 };
static const uint8_t c19_cwnext[4] = { 1, 3, 0, 2 }, c19_acwnext[4] = { 2, 0, 3, 1 };
enum { C19_REPEAT, C19_CW, C19_JUMP, C19_ACW };
static const char *const c19_kname[4] = { "repeat", "cw", "invalid_jump", "acw" };
static int c19_kind(int from, int to) { return (c19_cyc[to] - c19_cyc[from]) & 3; }
static int c19_delta(int from, int to) { int k = c19_kind(from, to); return k == C19_CW ? 1 : k == C19_ACW ? -1 : 0; }
static int64_t c19_floordiv4(int64_t t) { return t >= 0 ? t / 4 : -((-t + 3) / 4); }
static uint32_t c19_umod(int64_t v, int64_t m) { int64_t r = v % m; if (r < 0) r += m; return (uint32_t)r; }
static uint32_t c19_circ(uint32_t a, uint32_t b, uint32_t m) { uint32_t d = (a + m - b) % m, e = (b + m - a) % m; return d < e ? d : e; }

#define C19_OP_READ 4
#define C19_NOPS 5
#define C19_SCOPE_CLICKS 127		/* an 8-bit latch next to a live position can be extended unambiguously this far */
#define C19_SCOPE_Q (4 * C19_SCOPE_CLICKS)
#define C19_POS(s) ((uint16_t)(s)->r.internal_count)	/* the statement's internal position; judged by differences only */

typedef struct {
	rotenc_t r;		/* whole image is state: zeroed before initialisation so padding is defined */
	int32_t T;		/* ghost: true position, quarter steps, never wraps */
	int32_t L;		/* ghost: true latched position, clicks, never wraps */
	uint8_t mlast;		/* model's idea of the previous state */
	uint8_t valid;		/* no invalid two-bit jump in the history */
	uint8_t pad[2];
} c19_sim;

static c19_sim c19_S;				/* THE live decoder + ghost; every step acts on it */
static const rotenc_t c19_init = ROTENC_VAR_INIT;
static size_t c19_libsz;
#define C19_MAXDEPTH 8
static uint8_t *c19_libstack;

/* operation log of the live line since reset: the replay text of whatever goes wrong */
#define C19_LOGCAP (1u << 20)
static char *c19_log; static size_t c19_loglen; static int c19_logging = 1, c19_log_overflow;

typedef struct { c19_sim s; size_t loglen; int depth; } c19_mark;
static void c19_save(c19_mark *m, int depth)
{
	memcpy(&m->s, &c19_S, sizeof(c19_S)); m->loglen = c19_loglen; m->depth = depth;
	if (c19_libsz) vx_lib_save(c19_libstack + (size_t)depth * c19_libsz);
}
static void c19_back(const c19_mark *m)
{
	memcpy(&c19_S, &m->s, sizeof(c19_S)); c19_loglen = m->loglen;
	if (c19_libsz) vx_lib_restore(c19_libstack + (size_t)m->depth * c19_libsz);
}
static void c19_reset(void)
{
	memset(&c19_S, 0, sizeof(c19_S));
	memcpy(&c19_S.r, &c19_init, sizeof(rotenc_t));
	c19_S.valid = 1;
	c19_loglen = 0;
	vx_lib_reset();
}

/* ------------------------------------------------------- families, counters */

typedef struct { const char *name; uint64_t cases, decodes, reads; } c19_famstat;
static c19_famstat c19_fs[] = { { "seq", 0, 0, 0 }, { "step", 0, 0, 0 }, { "walk", 0, 0, 0 }, { "drift", 0, 0, 0 },
				{ "gap", 0, 0, 0 }, { "rest", 0, 0, 0 }, { "dwell", 0, 0, 0 } };
enum { F_SEQ, F_STEP, F_WALK, F_DRIFT, F_GAP, F_REST, F_DWELL, F_N };
static c19_famstat *c19_cur = &c19_fs[F_SEQ];
static int c19_quiet;				/* steps repeated by a worker that does not own them are not counted */
static uint64_t c19_nfail;			/* oracle failures so far (reported or folded into a class) */
static uint64_t c19_kinds[4], c19_detents, c19_oneclick_checked, c19_oneclick_skipped, c19_c14_judged, c19_c14_out_of_scope;
static uint64_t c19_wrap16_up, c19_wrap16_down, c19_wrap8_up, c19_wrap8_down;
static int32_t c19_Tmin, c19_Tmax;
static int c19_obs_on; static vx_set c19_obs, c19_posset;
static int c19_stop;				/* this worker gives up (repeated hangs / deadline) */

#define C19_MAXCLASS 96
static struct { char key[80]; uint64_t hits; } c19_classes[C19_MAXCLASS];
static int c19_nclasses;
/* returns 1 if this is the first hit of the class (caller then reports it) */
static int c19_class_hit(const char *key)
{
	for (int i = 0; i < c19_nclasses; i++) if (!strcmp(c19_classes[i].key, key)) { c19_classes[i].hits++; return 0; }
	if (c19_nclasses >= C19_MAXCLASS) return 0;
	snprintf(c19_classes[c19_nclasses].key, sizeof(c19_classes[c19_nclasses].key), "%s", key);
	c19_classes[c19_nclasses++].hits = 1;
	return 1;
}

static void (*c19_reporter)(const char *cls, const char *detail, const char *msg);
__attribute__((format(printf, 3, 4)))
static void c19_fail(const char *cls, const char *detail, const char *fmt, ...)
{
	va_list ap; va_start(ap, fmt); char *m = vx_vfmt(fmt, ap); va_end(ap);
	c19_nfail++;
	c19_reporter(cls, detail, m);
	free(m);
}

static void c19_image(char *out, size_t n)
{
	const uint8_t *b = (const uint8_t *)&c19_S.r; size_t k = 0;
	for (size_t i = 0; i < sizeof(rotenc_t) && k + 3 < n; i++) k += (size_t)snprintf(out + k, n - k, "%02x", b[i]);
	out[k < n ? k : n - 1] = 0;
}

/* "1r32r0" style history, shortened deterministically when long */
static void c19_short_history(const char *full, size_t l, char *out, size_t n)
{
	if (l <= 48) { snprintf(out, n, "reset,%.*s", (int)l, full); return; }
	vx_hasher h; vx_h_init(&h); vx_h_bytes(&h, full, l); vx_h128 k = vx_h_done(&h);
	snprintf(out, n, "reset,%.24s...%.24s(len=%zu,id=%08x)", full, full + l - 24, l, (unsigned)(k.a & 0xffffffffu));
}

/* ------------------------------------------------------------ the step */

/* apply one operation to the real decoder and to the ghost, run the oracle. Returns 1 when implementation and model have
 * parted (wrong position): the line cannot be continued. Read-only oracles report but return 0. */
static int c19_arm_calls;	/* search: fault capture is armed around the library calls only (the harness's own set and store
				 * operations can take longer than a watchdog period on a busy machine); families arm a whole case */
static int c19_step(int op)
{
	c19_sim *s = &c19_S;
	char d[96];
	vx_opseq++;					/* the watchdog must only ever see a hanging library call */
	if (c19_logging) {
		if (c19_loglen + 1 < C19_LOGCAP) c19_log[c19_loglen++] = (char)(op == C19_OP_READ ? 'r' : '0' + op);
		else c19_log_overflow = 1;
	}
	if (op == C19_OP_READ) {
		uint16_t p0 = C19_POS(s), p1;
		unsigned c0, c14, c;
		if (!c19_arm_calls) { c0 = rotenc_count(&s->r); c14 = rotenc_count14(&s->r); c = rotenc_count(&s->r); }
		else if (VX_TRY) { c0 = rotenc_count(&s->r); c14 = rotenc_count14(&s->r); c = rotenc_count(&s->r); VX_END; }
		else { VX_END; c19_fail("fault", "fault", "%s", vx_fault_msg); return 1; }
		p1 = C19_POS(s);
		if (!c19_quiet) c19_cur->reads++;
		if (c19_obs_on) {
			vx_hasher h; vx_h_init(&h);
			vx_h_u64(&h, ((uint64_t)C19_OP_READ << 48) | ((uint64_t)p1 << 32) | ((uint64_t)(c & 0xffff) << 16) | (c14 & 0xffff));
			vx_set_add(&c19_obs, vx_h_done(&h));
		}
		if (p1 != p0) {
			snprintf(d, sizeof(d), "position moved by %+d", (int)(int16_t)(uint16_t)(p1 - p0));
			c19_fail("read:moves-position", d, "rotenc_count14 is a reading, the position must be unchanged");
			return 1;
		}
		if (c != c0) c19_fail("read:changes-count", "rotenc_count differs before and after rotenc_count14", "rotenc_count %u -> %u", c0, c);
		if (c14 > 0x3fff) {
			/* not a value modulo 2^14 at all: nothing else about it is judged */
			c19_fail("agree-low8", "count14 out of 14-bit range", "rotenc_count=%u rotenc_count14=%u", c, c14);
			return 0;
		}
		uint32_t w14 = c19_umod(s->L, 16384);
		int32_t drift = s->T - 4 * s->L;
		if (drift >= -C19_SCOPE_Q && drift <= C19_SCOPE_Q) {
			if (!c19_quiet) c19_c14_judged++;
			if (c14 != w14) {
				int dd = (int)c19_umod((int64_t)c14 - (int64_t)w14, 16384);
				if (dd > 8192) dd -= 16384;
				if ((dd == 256 || dd == -256) && c == c19_umod(s->L, 256))
					/* one root cause: high bits follow the live position while the low byte is latched */
					c19_fail("count14:high-bits-not-latched", "got-want=+-256 (mod 2^14), low byte right",
						 "rotenc_count14=%u, latched position mod 2^14=%u (rotenc_count=%u), live clicks=%u", c14, w14, c,
						 c19_umod(c19_floordiv4(s->T), 16384));
				else {
					snprintf(d, sizeof(d), "got-want=%d (mod 2^14)", dd);
					c19_fail(s->mlast == 0 ? "count14:at-detent" : "count14:off-detent", d,
						 "rotenc_count14=%u, latched position mod 2^14=%u", c14, w14);
				}
			}
		} else if (!c19_quiet) c19_c14_out_of_scope++;
		if ((c14 & 0xff) != c)
			c19_fail("agree-low8", "low 8 bits differ", "rotenc_count=%u rotenc_count14=%u", c, c14);
		if (s->valid) {
			uint32_t d14 = c19_circ(4u * (c14 & 0x3fff), c19_umod(s->T, 65536), 65536);
			if (d14 > 4)
				c19_fail("one-click:count14", "no invalid jump in history",
					 "rotenc_count14=%u is %u quarter steps from the true position %d/4 (mod 2^14 clicks)", c14, d14, s->T);
		}
		return 0;
	}

	int kind = c19_kind(s->mlast, op), want = kind == C19_CW ? 1 : kind == C19_ACW ? -1 : 0;
	uint16_t p0 = C19_POS(s), p1;
	unsigned c;
	if (!c19_arm_calls) { rotenc_decode(&s->r, (uint8_t)op); c = rotenc_count(&s->r); }
	else if (VX_TRY) { rotenc_decode(&s->r, (uint8_t)op); c = rotenc_count(&s->r); VX_END; }
	else { VX_END; c19_fail("fault", "fault", "%s", vx_fault_msg); return 1; }
	p1 = C19_POS(s);
	int got = (int)(int16_t)(uint16_t)(p1 - p0);
	int32_t T0 = s->T, T = T0 + want;
	s->T = T; if (op == 0) s->L = (int32_t)c19_floordiv4(T);
	s->mlast = (uint8_t)op;
	if (kind == C19_JUMP) s->valid = 0;
	if (!c19_quiet) {
		c19_cur->decodes++; c19_kinds[kind]++; c19_detents += op == 0;
		if (T < c19_Tmin) c19_Tmin = T;
		if (T > c19_Tmax) c19_Tmax = T;
		if (T != T0) {
			int64_t a = c19_floordiv4(T0), b = c19_floordiv4(T);
			if (c19_umod(T0, 65536) == 65535 && c19_umod(T, 65536) == 0) c19_wrap16_up++;
			if (c19_umod(T0, 65536) == 0 && c19_umod(T, 65536) == 65535) c19_wrap16_down++;
			if (b > a && c19_umod(b, 256) == 0) c19_wrap8_up++;
			if (b < a && c19_umod(a, 256) == 0) c19_wrap8_down++;
		}
	}
	if (c19_obs_on) {
		vx_hasher h; vx_h_init(&h);
		vx_h_u64(&h, ((uint64_t)op << 48) | ((uint64_t)p1 << 32) | ((uint64_t)(c & 0xffff) << 16) | 0xffff);
		vx_set_add(&c19_obs, vx_h_done(&h));
		vx_h_init(&h); vx_h_u64(&h, c19_umod(T, 65536)); vx_set_add(&c19_posset, vx_h_done(&h));
	}
	if (got != want) {
		char cls[64];
		snprintf(cls, sizeof(cls), "position:%s", c19_kname[kind]);
		snprintf(d, sizeof(d), "%s step: position moved by %+d, must be %+d", c19_kname[kind], got, want);
		c19_fail(cls, d, "internal position %u -> %u (mod 2^16) on decode(%d)", p0, p1, op);
		return 1;
	}
	uint32_t w8 = c19_umod(s->L, 256);
	if (c > 255) {
		snprintf(d, sizeof(d), "rotenc_count=%u", c);
		c19_fail("count:range", "rotenc_count is not a value modulo 256", "%s, latched position mod 256=%u", d, w8);
	}
	if (c != w8) {
		snprintf(d, sizeof(d), "got-want=%d", (int)c - (int)w8);
		c19_fail(op == 0 ? "count:at-detent" : "count:off-detent", d, "rotenc_count=%u, latched position mod 256=%u", c, w8);
	}
	if (s->valid) {
		if (!c19_quiet) c19_oneclick_checked++;
		uint32_t d8 = c19_circ(4u * (c & 0xff), c19_umod(T, 1024), 1024);
		if (d8 > 4)
			c19_fail("one-click:count", "no invalid jump in history",
				 "rotenc_count=%u is %u quarter steps from the true position %d/4 (mod 256 clicks)", c, d8, T);
	} else if (!c19_quiet) c19_oneclick_skipped++;
	return 0;
}

/* ------------------------------------------------- families: report, cases */

static void c19_fam_report(const char *cls, const char *detail, const char *msg)
{
	char key[80], sh[160], img[80];
	snprintf(key, sizeof(key), "%s|%s", c19_cur->name, cls);
	if (!c19_class_hit(key)) return;
	vx_sb sig = {0}, rep = {0};
	c19_short_history(c19_log, c19_loglen, sh, sizeof(sh));
	c19_image(img, sizeof(img));
	vx_sb_printf(&sig, "C19/%s|%s|%s", c19_cur->name, cls, detail);
	vx_sb_printf(&rep, "part=3\nfam=%s\nops=%.*s\n", c19_cur->name, (int)c19_loglen, c19_log);
	vx_violation(sig.s, rep.s, "%s: %s (%s) -- family %s, complete history from reset (0..3 = decode that state, r = read count14): %s; "
		     "ghost T=%d quarter steps, latched L=%d clicks; rotenc_t image=%s", cls, msg, detail, c19_cur->name, sh, c19_S.T, c19_S.L, img);
	free(sig.s); free(rep.s);
}

static uint64_t c19_bad;			/* violating cases in the current job */
static uint64_t c19_ncases_all;

/* run one case under fault capture: 0 fine, 1 an oracle failed, 2 fault (reported; the live state is undefined) */
static int c19_case(void (*fn)(const void *), const void *arg)
{
	uint64_t f0 = c19_nfail;
	if (!c19_quiet) c19_cur->cases++;
	if ((++c19_ncases_all & 255) == 0 && vx_deadline_passed()) {
		c19_stop = 1; vx_and("exhaustive", 0); vx_note("scripted families cut short by the deadline");
	}
	if (VX_TRY) { fn(arg); VX_END; }
	else {
		VX_END;
		c19_fail("fault", vx_fault_msg, "fault in rotenc_decode / rotenc_count14: %s", vx_fault_msg);
		vx_and("exhaustive", 0);
		c19_bad++;
		if (vx_hangs_seen >= 2) { c19_stop = 1; vx_note("worker stopped after repeated hangs of the library"); }
		return 2;
	}
	if (c19_nfail != f0) { c19_bad++; return 1; }
	return 0;
}
/* a job (path / walker share / prefix group) that keeps failing is abandoned */
static int c19_giveup(void)
{
	if (c19_stop) return 1;
	if (c19_bad >= 4 || vx_too_many_violations()) { vx_and("exhaustive", 0); vx_note("a family job stopped early after repeated violations"); return 1; }
	return 0;
}

static int c19_mine_fam(uint64_t job)
{
	int n = vx_args.nworkers;
	if (n <= 1) return 1;
	int bw = (int)((16 + vx_args.seed) % (uint64_t)n);	/* the worker that runs the search */
	return vx_args.worker == (bw + 1 + (int)(job % (uint64_t)(n - 1))) % n;
}

/* ---------------------------------------------------------------- step family */

#define C19_SCRIPTMAX 140000
static uint8_t c19_script[C19_SCRIPTMAX]; static int c19_nscript;
static void c19_sc(int op) { if (c19_nscript < C19_SCRIPTMAX) c19_script[c19_nscript++] = (uint8_t)op; }
static int c19_sc_rotate(int cur, int dir, int steps) { for (int i = 0; i < steps; i++) { cur = dir > 0 ? c19_cwnext[cur] : c19_acwnext[cur]; c19_sc(cur); } return cur; }

static uint64_t c19_step_starts;
static vx_set c19_step_obs;

/* next decode of the path (followed by a read), then from the state reached every next state and every second next one */
static int c19_main_ok;
static void c19_step_case(const void *arg)
{
	int op = *(const int *)arg;
	uint64_t f0 = c19_nfail;
	c19_mark m0, m1;
	c19_main_ok = 0;
	if (op >= 0) { if (c19_step(op)) return; c19_step(C19_OP_READ); if (c19_nfail != f0) return; }
	c19_main_ok = 1;			/* whatever fails from here on fails on a copy */
	c19_save(&m0, 1);
	for (int n1 = 0; n1 < 4; n1++) {
		if (!c19_step(n1)) {
			c19_step(C19_OP_READ);
			c19_save(&m1, 2);
			for (int n2 = 0; n2 < 4; n2++) {
				if (!c19_step(n2)) c19_step(C19_OP_READ);
				c19_back(&m1);
			}
		}
		c19_back(&m0);
	}
}

/* kind 0: plain rotation, phase 0 / 2; kind 1: rotation to click c, then laps that never visit the detent */
static void c19_step_path(int kind, int c, int dir, int phase)
{
	int cur = 0;
	c19_nscript = 0;
	if (kind == 0) {
		if (phase) { c19_sc(3); cur = 3; }
		c19_sc_rotate(cur, dir, 65536 + 8);
	} else {
		if (c < 128) c19_sc_rotate(0, +1, 4 * c); else c19_sc_rotate(0, -1, 4 * (256 - c));
		c19_sc(3);
		for (int lap = 0; lap < 32768 + 2; lap++) {
			if (dir > 0) { c19_sc(2); c19_sc(1); c19_sc(3); }
			else { c19_sc(1); c19_sc(2); c19_sc(3); }
		}
	}
	c19_cur = &c19_fs[F_STEP];
	c19_bad = 0;
	c19_reset();
	int ok = 1;
	for (int i = -1; i < c19_nscript && ok && !c19_giveup(); i++) {
		int op = i < 0 ? -1 : c19_script[i];
		int r = c19_case(c19_step_case, &op);
		c19_step_starts++;
		/* a failure inside the probes leaves the main line intact (it was restored); a fault or a failure on the main line ends the path */
		if (r == 2 || !c19_main_ok) ok = 0;
		if ((i & 1023) == 0) {
			vx_hasher h; vx_h_init(&h);
			vx_h_u64(&h, ((uint64_t)c19_S.mlast << 40) | ((uint64_t)c19_umod(c19_S.L, 256) << 16) | (c19_umod(c19_S.T, 65536) >> 10));
			vx_set_add(&c19_step_obs, vx_h_done(&h));
		}
	}
	if (!ok) { vx_and("exhaustive", 0); vx_note("step family: a path was abandoned before its end (violation or fault on the main line)"); }
	else if (c19_giveup()) vx_and("exhaustive", 0);	/* deadline / repeated violations: c19_giveup and c19_case have said why */
}

/* ---------------------------------------------------------------- walk family */

static const uint8_t c19_laps[6][3] = { { 3, 2, 1 }, { 3, 1, 2 }, { 1, 3, 2 }, { 2, 3, 1 }, { 1, 2, 3 }, { 2, 1, 3 } };
static int c19_walker_reads;			/* does the current walker read count14 on its main line */
static uint64_t c19_drift_max_q;

/* main line reads after every decode; a never-reading line reads twice on a throw-away copy instead */
static int c19_step_observed(int op, int depth)
{
	if (c19_step(op)) return 1;
	if (c19_walker_reads) { c19_step(C19_OP_READ); return 0; }
	c19_mark m; c19_save(&m, depth);
	if (!c19_step(C19_OP_READ)) c19_step(C19_OP_READ);
	c19_back(&m);
	return 0;
}

static void c19_drift_case(const void *arg)
{
	const uint8_t *lap = arg;
	for (int i = 0; i < 3 * 300; i++) {
		int op = lap[i % 3];
		int32_t T = c19_S.T + c19_delta(c19_S.mlast, op), dq = T - 4 * c19_S.L;
		if (dq < -C19_SCOPE_Q || dq > C19_SCOPE_Q) break;	/* scope: the drift stays within 127 clicks */
		uint64_t f0 = c19_nfail;
		if (c19_step_observed(op, 2) || c19_nfail != f0) return;
		if ((uint64_t)(dq < 0 ? -dq : dq) > c19_drift_max_q) c19_drift_max_q = (uint64_t)(dq < 0 ? -dq : dq);
	}
}
static void c19_gap_case(const void *arg)
{
	int dir = *(const int *)arg, cur = 0, keep = c19_walker_reads;
	c19_walker_reads = 0;					/* no read on the main line, two on a copy at every step */
	for (int i = 0; i < 4 * 300; i++) {
		cur = dir > 0 ? c19_cwnext[cur] : c19_acwnext[cur];
		uint64_t f0 = c19_nfail;
		if (c19_step_observed(cur, 2) || c19_nfail != f0) break;
	}
	c19_walker_reads = keep;
}
static void c19_rest_case(const void *arg)
{
	int s = *(const int *)arg;
	c19_mark m;
	for (int n = 0; n <= 300; n++) {			/* n = 0: the step to s, then 300 identical polls */
		uint64_t f0 = c19_nfail;
		if (c19_step_observed(s, 2) || c19_nfail != f0) return;
		c19_save(&m, 2);
		for (int t = 0; t < 4; t++) {
			if (!c19_step(t)) c19_step(C19_OP_READ);
			c19_back(&m);
		}
		if (c19_nfail != f0) return;
	}
}

static void c19_walk_segment(const void *arg)
{
	const int *a = arg;					/* dir, steps, one decode before them (-1: none) */
	uint64_t f0 = c19_nfail;
	if (a[2] >= 0 && (c19_step_observed(a[2], 1) || c19_nfail != f0)) return;
	int cur = c19_S.mlast;
	for (int i = 0; i < a[1]; i++) {
		cur = a[0] > 0 ? c19_cwnext[cur] : c19_acwnext[cur];
		if (c19_step_observed(cur, 1) || c19_nfail != f0) return;
	}
}

/* is the click b (mod 16384) a base of the dense set (drift) / of the sparse set (gap, rest) in this tier */
static int c19_base_dense(unsigned b)
{
	if (vx_thorough()) return 1;
	unsigned d128 = b % 128; if (d128 > 64) d128 = 128 - d128;
	if (d128 <= 2) return 1;
	/* every offset -128..127 around the 14/16-bit wrap, the sign bit of the 8-bit count, the first and the last 8-bit wrap and
	 * the sign bit of 14 bits */
	static const unsigned full[] = { 0, 128, 256, 8192, 16128 };
	for (unsigned i = 0; i < sizeof(full) / sizeof(full[0]); i++) {
		unsigned d = (b + 16384 - full[i]) % 16384;
		if (d < 128 || d >= 16384 - 128) return 1;
	}
	return 0;
}
static int c19_base_sparse(unsigned b)
{
	unsigned d128 = b % 128; if (d128 > 64) d128 = 128 - d128;
	return d128 <= (vx_thorough() ? 2u : 1u);
}

#define C19_WALK_SPLIT 4
/* walker w = direction x phase x reading habit; `share` selects which of its bases this job works on (share 0 also owns
 * the counts of the main line, which every share has to walk) */
static void c19_walker(int w, int share)
{
	int dir = (w & 1) ? -1 : +1, phase = (w & 2) ? 2 : 0, reads = (w & 4) ? 0 : 1;
	int owner = share == 0;
	c19_mark base;
	c19_bad = 0;
	c19_reset();
	for (int k = 0; k <= 16384 + 3 && !c19_giveup(); k++) {
		/* k = number of arrivals at the detent so far. Phase 2: an invalid jump 0 -> 3 first, the first arrival is then two
		 * quarter steps away and every detent sits on a position that is 2 mod 4 */
		int seg[3] = { dir, k == 0 ? 0 : (phase && k == 1) ? 2 : 4, (k == 0 && phase) ? 3 : -1 };
		if (seg[1] || seg[2] >= 0) {
			c19_cur = &c19_fs[F_WALK]; c19_quiet = !owner; c19_walker_reads = reads;
			int r = c19_case(c19_walk_segment, seg);
			c19_quiet = 0;
			if (r) { vx_and("exhaustive", 0); vx_note("walk family: a walker was abandoned before its end (violation or fault on the main line)"); return; }
		}
		if (c19_S.mlast != 0) continue;			/* not at the detent yet */
		if ((k % C19_WALK_SPLIT) != share) continue;
		unsigned b = c19_umod(c19_S.L, 16384);
		int dense = c19_base_dense(b), sparse = c19_base_sparse(b);
		if (!dense && !sparse) continue;
		c19_save(&base, 0);
		if (dense) {
			c19_cur = &c19_fs[F_DRIFT];
			for (int l = 0; l < 6 && !c19_giveup(); l++) {
				c19_walker_reads = reads; c19_case(c19_drift_case, c19_laps[l]);
				if (w == 0 && share == 0 && k == 4 && l == 0 && vx_want_sample())
					vx_sample("drift: walker cw / phase 0 / reading after every decode, base click %u, laps %d,%d,%d until 127 clicks "
						  "from the latch, count14 against the ghost latch after each decode: reset,%.16s...%.12s(len=%d), ends with "
						  "position %d quarter steps, latch %d clicks", b, c19_laps[l][0], c19_laps[l][1], c19_laps[l][2], c19_log,
						  c19_log + (c19_loglen > 12 ? c19_loglen - 12 : 0), (int)c19_loglen, c19_S.T, c19_S.L);
				c19_back(&base);
			}
		}
		if (sparse) {
			if (reads) {
				c19_cur = &c19_fs[F_GAP];
				for (int d = -1; d <= 1 && !c19_giveup(); d += 2) {
					c19_walker_reads = reads; c19_case(c19_gap_case, &d);
					if (w == 0 && share == 0 && k == 0 && d == 1 && vx_want_sample())
						vx_sample("gap: base click %u, 300 clicks clockwise without reading count14 on the main line, read twice on a copy "
							  "after every decode: reset,%.16s...(len=%d)", b, c19_log, (int)c19_loglen);
					c19_back(&base);
				}
			}
			c19_cur = &c19_fs[F_REST];
			for (int s = 0; s < 4 && !c19_giveup(); s++) {
				c19_walker_reads = reads; c19_case(c19_rest_case, &s);
				if (w == 0 && share == 0 && k == 0 && s == 3 && vx_want_sample())
					vx_sample("rest: base click %u, state %d polled 301 times, after each poll every one-decode continuation on a copy: "
						  "reset,%.16s...(len=%d)", b, s, c19_log, (int)c19_loglen);
				c19_back(&base);
			}
		}
	}
	c19_quiet = 0;
}

/* --------------------------------------------------------------- dwell family */

static void c19_suffixes(int depth, int left)
{
	c19_mark m;
	if (!left) return;
	c19_save(&m, depth);
	for (int t = 0; t < 4; t++) {
		if (!c19_step(t)) { c19_step(C19_OP_READ); c19_suffixes(depth + 1, left - 1); }
		c19_back(&m);
	}
}
static void c19_dwell_case(const void *arg)
{
	const int *a = arg;		/* prefix length, prefix code, dwell state, main line reads, polls, continuation depth */
	uint64_t f0 = c19_nfail;
	c19_walker_reads = a[3];
	for (int i = 0, code = a[1]; i < a[0]; i++, code >>= 2)
		if (c19_step_observed(code & 3, 1) || c19_nfail != f0) return;
	for (int n = 0; n <= a[4]; n++) {			/* n = 0: the step to the state, then the identical polls */
		if (c19_step_observed(a[2], 1) || c19_nfail != f0) return;
		c19_suffixes(1, a[5]);
		if (c19_nfail != f0) return;
	}
}
/* every prefix of <= maxp decodes x 4 dwell states x main line reading / never reading */
static void c19_dwell_family(int maxp, int polls, int q, uint64_t *job)
{
	int sampled = 0;
	c19_cur = &c19_fs[F_DWELL];
	for (int plen = 0; plen <= maxp && !c19_stop; plen++)
		for (int code = 0; code < (1 << (2 * plen)) && !c19_stop; code++, (*job)++) {
			if (!c19_mine_fam(*job)) continue;
			c19_bad = 0;
			for (int s = 0; s < 4 && !c19_giveup(); s++)
				for (int rd = 0; rd < 2 && !c19_giveup(); rd++) {
					int a[6] = { plen, code, s, rd, polls, q };
					c19_reset();
					c19_case(c19_dwell_case, a);
					if (!sampled && plen == maxp && code == 0 && s == 0 && rd == 1 && vx_want_sample()) {
						sampled = 1;
						vx_sample("dwell: prefix of %d decodes, then state %d polled %d times, main line reading count14 after every "
							  "decode, after each poll every continuation of <= %d decodes on copies: reset,%.16s...(len=%d)",
							  plen, s, polls + 1, q, c19_log, (int)c19_loglen);
					}
				}
		}
	c19_walker_reads = 1;
}

/* --------------------------------------------------------------------- search */

static int c19_W;				/* drift window in clicks */
static vx_bfs c19_B;

static int c19_bfs_enabled(int op)
{
	if (op == C19_OP_READ) return 1;
	int32_t T = c19_S.T + c19_delta(c19_S.mlast, op);
	int32_t L = op == 0 ? (int32_t)c19_floordiv4(T) : c19_S.L;
	int32_t d = T - 4 * L;
	return d >= -4 * c19_W && d <= 4 * c19_W;
}
static void c19_bfs_describe(int op, vx_sb *sb) { if (op == C19_OP_READ) vx_sb_printf(sb, "r"); else vx_sb_printf(sb, "%d", op); }
static void c19_bfs_canon(vx_hasher *h)
{
	vx_h_bytes(h, &c19_S.r, sizeof(rotenc_t));	/* the WHOLE object; the library's statics are added by vx_bfs_run */
	vx_h_u64(h, ((uint64_t)c19_umod(c19_S.T, 65536) << 32) | ((uint64_t)c19_S.mlast << 8) | c19_S.valid);
	vx_h_u64(h, (uint64_t)(int64_t)(c19_S.T - 4 * c19_S.L));
}
/* history of stored state idx (+ one more op if >= 0) as a string of 0..3 / r; caller frees */
static char *c19_bfs_ops(uint64_t idx, int extra, size_t *len)
{
	int n = 0;
	for (uint64_t j = idx; c19_B.st.parent[j] != VX_NOPARENT; j = c19_B.st.parent[j]) n++;
	uint32_t *ops = malloc(sizeof(uint32_t) * ((size_t)n + 2));
	char *s = malloc((size_t)n + 3);
	if (!ops || !s) { fprintf(stderr, "c19: out of memory (history)\n"); _exit(3); }
	n = vx_store_trace(&c19_B.st, idx, ops, n + 1);
	if (extra >= 0) ops[n++] = (uint32_t)extra;
	for (int i = 0; i < n; i++) s[i] = (char)(ops[i] == C19_OP_READ ? 'r' : '0' + ops[i]);
	s[n] = 0; *len = (size_t)n;
	free(ops);
	return s;
}
/* report a violation of the current BFS transition, first hit of its class only */
static void c19_bfs_report(const char *cls, const char *detail, const char *msg)
{
	if (!c19_class_hit(cls)) return;
	vx_sb rep = {0}, sig = {0};
	char sh[160], img[80];
	size_t n; char *hist = c19_bfs_ops(c19_B.cur, c19_B.cur_op, &n);
	vx_sb_printf(&rep, "part=2\nconfig=%s\nops=", c19_B.name);
	for (size_t i = 0; i < n; i++) vx_sb_printf(&rep, "%s%d", i ? " " : "", hist[i] == 'r' ? C19_OP_READ : hist[i] - '0');
	vx_sb_printf(&rep, "\n");
	c19_short_history(hist, n, sh, sizeof(sh));
	c19_image(img, sizeof(img));
	vx_sb_printf(&sig, "C19/seq|%s|%s|min:%s", cls, detail, sh);
	vx_violation(sig.s, rep.s, "%s: %s -- shortest history from reset (0..3 = decode that state, r = read count14): %s; ghost T=%d quarter steps, "
		     "latched L=%d clicks; rotenc_t image=%s", cls, msg, sh, c19_S.T, c19_S.L, img);
	free(hist); free(rep.s); free(sig.s);
}
static int c19_bfs_apply(int op) { return c19_step(op); }

static void c19_bfs_setup(int w)
{
	static char name[16];
	c19_cur = &c19_fs[F_SEQ];
	c19_reporter = c19_bfs_report;
	c19_logging = 0;
	c19_arm_calls = 1;
	c19_reset();
	c19_W = w;
	snprintf(name, sizeof(name), "W%d", w);
	memset(&c19_B, 0, sizeof(c19_B));
	c19_B.live = &c19_S; c19_B.size = sizeof(c19_S); c19_B.nops = C19_NOPS; c19_B.enabled = c19_bfs_enabled; c19_B.apply = c19_bfs_apply;
	c19_B.canon = c19_bfs_canon; c19_B.describe = c19_bfs_describe; c19_B.name = name;
	/* the canonical space of the decoder as the statement describes it has < 65536 * (8W+1) * 3 states; an implementation
	 * with a wider position or hidden counters can have more - the search then stops here and says so */
	c19_B.max_states = 65536ULL * (8ULL * (uint64_t)w + 2);
}

static void c19_search(int w)
{
	c19_bfs_setup(w);
	vx_set_init(&c19_obs, 20); vx_set_init(&c19_posset, 18);
	c19_obs_on = 1;
	vx_bfs_run(&c19_B);
	c19_obs_on = 0;
	vx_count("states", c19_B.states); vx_count("transitions", c19_B.transitions); vx_count("traces", c19_B.transitions);
	vx_count("distinct", c19_obs.n);
	vx_count("seq_states", c19_B.states); vx_count("seq_transitions", c19_B.transitions);
	vx_count("seq_distinct_observations_op_position_count_count14", c19_obs.n);
	vx_count("seq_distinct_true_positions_mod_65536", c19_posset.n);
	vx_count("seq_scope_guard_disabled_steps", c19_B.disabled);
	vx_count("seq_drift_window_clicks", (uint64_t)w);
	vx_count("seq_state_image_bytes_rotenc_t", sizeof(rotenc_t));
	vx_count("seq_state_image_bytes_library_statics", vx_lib_size());
	vx_and("exhaustive", c19_B.fixpoint && !c19_B.capped);
	vx_and("seq_fixpoint", c19_B.fixpoint && !c19_B.capped);
	vx_max("seq_bfs_depth", (uint64_t)c19_B.depth_done);
	if (c19_B.capped) vx_note("the search stopped before the fixpoint (deadline / state cap %llu / violation cap): states=%llu depth completed=%d",
				  (unsigned long long)c19_B.max_states, (unsigned long long)c19_B.states, c19_B.depth_done);
	/* sample: the deepest state's history */
	size_t n; char *full = c19_bfs_ops(c19_B.st.n - 1, -1, &n);
	char sh[160]; c19_short_history(full, n, sh, sizeof(sh)); free(full);
	vx_sample("seq (W=%d clicks): %llu states, %llu transitions, fixpoint=%d, BFS depth %d, %llu distinct positions mod 2^16; deepest history "
		  "(0..3 decode, r read count14): %s", w, (unsigned long long)c19_B.states, (unsigned long long)c19_B.transitions,
		  c19_B.fixpoint, c19_B.depth_done, (unsigned long long)c19_posset.n, sh);
	vx_bfs_free(&c19_B);
}

/* ---------------------------------------------------------------------- main */

static int c19_wparam(void)
{
	const char *e = getenv("C19_W");
	if (e && atoi(e) > 0) return atoi(e);
	return vx_thorough() ? 100 : 3;
}

static void c19_replay_script(const char *rp)
{
	const char *f = vx_replay_field(rp, "fam");
	c19_cur = &c19_fs[F_STEP];
	for (int i = 0; f && i < F_N; i++) if (!strcmp(c19_fs[i].name, f)) c19_cur = &c19_fs[i];
	c19_reporter = c19_fam_report;
	c19_reset();
	const char *p = strstr(rp, "ops=");
	if (!p) return;
	p += 4;
	if (VX_TRY) {
		for (; *p == 'r' || (*p >= '0' && *p <= '3'); p++)
			if (c19_step(*p == 'r' ? C19_OP_READ : *p - '0')) break;
		VX_END;
	} else {
		VX_END;
		c19_fail("fault", vx_fault_msg, "fault in rotenc_decode / rotenc_count14: %s", vx_fault_msg);
	}
}

/* both sides of every power of two a latched count could be cut to or sign-extended at */
static const int c19_quick_counts[] = { 0, 1, 2, 31, 32, 63, 64, 65, 127, 128, 129, 191, 192, 193, 254, 255 };

int main(int argc, char **argv)
{
	vx_init(argc, argv);
	vx_install_handlers();
	vx_watchdog(2.0);	/* c19_step advances vx_opseq: only a library call that really hangs can be seen standing still */
	c19_libsz = vx_lib_size();
	c19_libstack = malloc(C19_MAXDEPTH * (c19_libsz ? c19_libsz : 1));
	c19_log = malloc(C19_LOGCAP);
	if (!c19_libstack || !c19_log) { fprintf(stderr, "c19: out of memory\n"); return 3; }
	char *rp = vx_read_replay();
	if (rp) {
		const char *f = vx_replay_field(rp, "part");
		if (f && atoi(f) == 2) {
			const char *cn = vx_replay_field(rp, "config");
			int w = cn && cn[0] == 'W' ? atoi(cn + 1) : 2;
			c19_bfs_setup(w);
			vx_bfs_replay(&c19_B, rp);
		} else c19_replay_script(rp);
		vx_finish();
		return 0;
	}
	vx_and("exhaustive", 1);
	c19_reporter = c19_fam_report;
	vx_set_init(&c19_step_obs, 12);
	uint64_t job = 0;
	int thorough = vx_thorough();

	/* step family: 4 rotation paths + 2 lap paths per latched count */
	for (int p = 0; p < 4 && !c19_stop; p++, job++)
		if (c19_mine_fam(job)) c19_step_path(0, 0, (p & 1) ? -1 : +1, (p & 2) ? 2 : 0);
	int ncounts = thorough ? 256 : (int)(sizeof(c19_quick_counts) / sizeof(c19_quick_counts[0]));
	for (int i = 0; i < ncounts && !c19_stop; i++)
		for (int d = 0; d < 2; d++, job++)
			if (c19_mine_fam(job)) c19_step_path(1, thorough ? i : c19_quick_counts[i], d ? -1 : +1, 0);
	if (c19_step_starts && c19_mine_fam(0) && vx_want_sample())
		vx_sample("step: a path of real decodes (here the last one of this worker: %d operations from reset, ends ...%.24s) visits every "
			  "reachable (last_state, position) pair for one latched count; from each visited state decode(0..3), read, decode(0..3), read "
			  "on copies of the whole rotenc_t", (int)c19_loglen, c19_loglen >= 24 ? c19_log + c19_loglen - 24 : "");

	/* walk family with its drift / gap / rest cases */
	for (int w = 0; w < 8 && !c19_stop; w++)
		for (int sh = 0; sh < C19_WALK_SPLIT; sh++, job++)
			if (c19_mine_fam(job)) c19_walker(w, sh);

	/* dwell family: many short prefixes x 300 polls x deep continuations, few prefixes x 66000 polls x one-step continuations */
	c19_dwell_family(thorough ? 6 : 4, 300, thorough ? 3 : 2, &job);
	c19_dwell_family(thorough ? 3 : 2, 66000, 1, &job);

	uint64_t fam_decodes = 0;
	for (int i = 1; i < F_N; i++) {
		char nm[64];
		if (!c19_fs[i].cases) continue;
		snprintf(nm, sizeof(nm), "%s_cases", c19_fs[i].name); vx_count(nm, c19_fs[i].cases);
		snprintf(nm, sizeof(nm), "%s_decodes", c19_fs[i].name); vx_count(nm, c19_fs[i].decodes);
		snprintf(nm, sizeof(nm), "%s_count14_reads", c19_fs[i].name); vx_count(nm, c19_fs[i].reads);
		fam_decodes += c19_fs[i].decodes;
	}
	if (fam_decodes) {
		vx_count("states", c19_step_starts);		/* decoder states visited by the step paths (each probed two decodes deep) */
		vx_count("transitions", fam_decodes); vx_count("traces", fam_decodes);
		vx_count("step_start_states_visited_by_real_paths", c19_step_starts);
		vx_count("step_distinct_path_regions_last_count_position_div_1024", c19_step_obs.n);
		vx_max("drift_max_quarter_steps_from_latch", c19_drift_max_q);
	}
	if (c19_log_overflow) { vx_and("exhaustive", 0); vx_note("operation log overflow: a replay text would be incomplete"); }

	if (vx_mine(16)) c19_search(c19_wparam());

	for (int i = 0; i < 4; i++) { char nm[64]; snprintf(nm, sizeof(nm), "kind_%s", c19_kname[i]); vx_count(nm, c19_kinds[i]); }
	vx_count("decodes_to_detent_state", c19_detents);
	vx_count("count14_judged_against_latch", c19_c14_judged);
	vx_count("count14_not_judged_drift_beyond_127_clicks", c19_c14_out_of_scope);
	vx_count("oneclick_checked", c19_oneclick_checked);
	vx_count("oneclick_skipped_after_invalid_jump", c19_oneclick_skipped);
	vx_count("steps_across_16bit_wrap_up", c19_wrap16_up); vx_count("steps_across_16bit_wrap_down", c19_wrap16_down);
	vx_count("steps_across_256click_boundary_up", c19_wrap8_up); vx_count("steps_across_256click_boundary_down", c19_wrap8_down);
	vx_max("ghost_T_min_negated", (uint64_t)(-(int64_t)c19_Tmin)); vx_max("ghost_T_max", (uint64_t)c19_Tmax);
	for (int i = 0; i < c19_nclasses; i++) {
		char nm[64]; snprintf(nm, sizeof(nm), "violating[%.50s]", c19_classes[i].key);
		vx_count(nm, c19_classes[i].hits);
	}
	vx_finish();
	return 0;
}

/*
 * C20 - the memory log always holds the most recent 256 messages, oldest first.
 *
 * mlog.c (with string.c, util.c) is linked as an object of its own (bin/checks.d/C20.py: lib=[...]). Nothing here
 * shares a translation unit with it and nothing here knows how it keeps its messages: the library state is the opaque
 * image vx_lib_save / vx_lib_restore give (every static of the library), and every message count is reached by REAL
 * mlog calls from an empty log. A worker walks up a ladder of counts once (up to 2^26+258 in the main part, up to
 * 2^31+299 / +600 in the fold part - the internal counter of today's mlog.c folds at 2^31-1) and takes an image at each
 * count it owns; an image taken after P real calls is a legitimate start state.
 *
 * Model: an UNBOUNDED list of the messages recorded since the last mlog_clear - a 64-bit count n, a lazily generated
 * prefix (message i of the ladder is a pure function gen(i) of its number) and an explicit tail for the operations of
 * the search. No ring arithmetic, no folding. The reference text of a message is produced by a format walker of the
 * harness with properly typed arguments.
 *
 * Reads are part of the history. After the start state and after every operation a reads pass runs mlog_get_line(k)
 * for k = -2..258 and 11 extreme k, mlog_dump twice in a row and the boundary k twice in a row, each compared with the
 * model, each executed on the live library. After every single read the library image is compared with the image
 * before it: a read that leaves every static of the library byte-identical cannot influence anything that follows
 * (the library is deterministic in its statics), so histories with that read in them add nothing; a read that DOES
 * change the image (a cache, a cursor, a drained buffer) becomes an operation of the search from that state on -
 * get_line(k) / dump are then interleaved with the writes like any other operation and the state after them is
 * explored further.
 *
 * Count family (ring arithmetic): vx_bfs over all sequences of <= D operations from {mlog, mlog_nice, mlog_clear}
 * (+ impure reads) from every start count; the message of an operation rotates through 8 shapes (0..3 arguments) with
 * its sequence number. Content family (what a message may contain): from the counts {0,1,255,256,257,600} one
 * message of a menu of ~160 (every argument position with values on both sides of 2^7,8,15,16,31,32,63,64, int
 * extremes and string pointers; 0..3 arguments; the empty format, formats without a trailing newline, %%; lines of
 * 2^j-1, 2^j, 2^j+1 bytes for j = 5..16 through a %s argument and through a literal format) through mlog and through
 * mlog_nice, followed by sequences over a reduced menu, mlog_clear and "the same call again".
 *
 * mlog_nice: the statement says "only while fewer than 256 have been recorded" - recording when there is room is not
 * demanded, so it is not judged: after mlog_nice with room the harness looks (mlog_get_line(n)) whether a line was
 * added and the model follows; what was recorded must be the message, and with 256 recorded nothing may be added.
 */
#include "vx.h"

#include <limits.h>
#include <stdio_ext.h>

#include <librfn/mlog.h>

uint32_t time_now(void) { return 0; }	/* referenced by librfn/util.c (ratelimit_check), not used here */

#define RING 256			/* "the most recent 256 messages": the statement's own number */
#define FOLD 0x7fffffffULL		/* message count named by the statement ("wrap point after 2^31 messages") */

static void die(const char *what) { fprintf(stderr, "c20: %s\n", what); _exit(3); }

/* ------------------------------------------------------- constant strings */

/* every format and every %s argument lives in one mmap()ed arena: never written after setup (mlog.h, restriction 1),
 * and at an address above 2^32 whatever the link mode, so that a pointer cut to 32 bits cannot survive */
#define ARENA_CAP (8u << 20)
static char *arena; static size_t arena_used;
static const char *arena_put(const char *s, size_t len)
{
	if (!arena) arena = vx_guard_alloc(ARENA_CAP, 0);
	if (arena_used + len + 1 > ARENA_CAP) die("arena full");
	char *p = arena + arena_used;
	memcpy(p, s, len); p[len] = 0; arena_used += len + 1;
	return p;
}

enum { T_L, T_I, T_P };			/* C type of an argument: unsigned long, int, const char * */
typedef struct { const char *fmt; size_t fmtlen; uint8_t nargs, typ[3]; char conv[3]; } shape_t;
#define MAXSHAPES 512
static shape_t shapes[MAXSHAPES]; static int nshapes;
typedef struct { const char *p; size_t len; } str_t;
#define MAXSTRS 128
static str_t strs[MAXSTRS]; static int nstrs;

static int add_shape_n(const char *text, size_t len)
{
	if (nshapes >= MAXSHAPES) die("too many shapes");
	shape_t *s = &shapes[nshapes];
	memset(s, 0, sizeof(*s));
	s->fmt = arena_put(text, len); s->fmtlen = len;
	for (size_t i = 0; i < len; i++) {
		if (text[i] != '%') continue;
		char c = text[++i];
		if (c == '%') continue;
		if (s->nargs >= 3) die("format with more than three conversions");
		if (c == 'l' && (text[i + 1] == 'u' || text[i + 1] == 'x')) { s->typ[s->nargs] = T_L; s->conv[s->nargs] = text[++i]; }
		else if (c == 'd' || c == 'c') { s->typ[s->nargs] = T_I; s->conv[s->nargs] = c; }
		else if (c == 's') { s->typ[s->nargs] = T_P; s->conv[s->nargs] = c; }
		else die("unknown conversion in a harness format");
		s->nargs++;
	}
	return nshapes++;
}
static int add_shape(const char *text) { return add_shape_n(text, strlen(text)); }
static int add_str_n(const char *text, size_t len)
{
	if (nstrs >= MAXSTRS) die("too many strings");
	strs[nstrs].p = arena_put(text, len); strs[nstrs].len = len;
	return nstrs++;
}
/* len bytes of a non-repeating-looking pattern without '%' and without newline */
static char *pattern(size_t len, unsigned salt)
{
	static const char abc[] = "abcdefghijklmnopqrstuvwxyz0123456789";
	char *p = malloc(len + 1);
	if (!p) die("out of memory");
	for (size_t i = 0; i < len; i++) p[i] = abc[(i * 7 + i / 36 + salt) % 36];
	p[len] = 0;
	return p;
}

/* ----------------------------------------------------------------- messages */

/* a message = a shape + three argument values (T_L: the value; T_I: the int, sign-extended; T_P: index into strs) */
typedef struct { uint32_t shape, pad; uint64_t a[3]; } msg_t;

static void mk(msg_t *m, int shape, uint64_t a0, uint64_t a1, uint64_t a2)
{
	memset(m, 0, sizeof(*m));
	m->shape = (uint32_t)shape; m->a[0] = a0; m->a[1] = a1; m->a[2] = a2;
}

/* the reference formatting: walks the format, every conversion printed from the properly typed value */
typedef struct { char *s; size_t n, cap; } tb_t;
static void tb_put(tb_t *b, const char *p, size_t len)
{
	if (b->n + len + 1 > b->cap) { b->cap = (b->n + len + 1) * 2; b->s = realloc(b->s, b->cap); if (!b->s) die("out of memory"); }
	memcpy(b->s + b->n, p, len); b->n += len; b->s[b->n] = 0;
}
static char *ref_text(const msg_t *m, size_t *lenp)
{
	const shape_t *sh = &shapes[m->shape];
	tb_t b = {0}; char num[32]; int arg = 0;
	tb_put(&b, "", 0);
	for (size_t i = 0; i < sh->fmtlen; i++) {
		char c = sh->fmt[i];
		if (c != '%') { size_t j = i; while (j < sh->fmtlen && sh->fmt[j] != '%') j++; tb_put(&b, sh->fmt + i, j - i); i = j - 1; continue; }
		c = sh->fmt[++i];
		if (c == '%') { tb_put(&b, "%", 1); continue; }
		uint64_t v = m->a[arg];
		switch (sh->conv[arg]) {
		case 'u': i++; tb_put(&b, num, (size_t)snprintf(num, sizeof(num), "%lu", (unsigned long)v)); break;
		case 'x': i++; tb_put(&b, num, (size_t)snprintf(num, sizeof(num), "%lx", (unsigned long)v)); break;
		case 'd': tb_put(&b, num, (size_t)snprintf(num, sizeof(num), "%d", (int)(int64_t)v)); break;
		case 'c': num[0] = (char)(int)(int64_t)v; tb_put(&b, num, 1); break;
		case 's': tb_put(&b, strs[v].p, strs[v].len); break;
		}
		arg++;
	}
	*lenp = b.n;
	return b.s;
}

/* texts already formatted (a hash table without eviction; emptied only between reads passes, so a pointer handed out
 * stays valid for the whole pass) */
#define TC_CAP (1u << 14)
static struct tc_e { msg_t m; char *text; size_t len; } tc[TC_CAP];
static unsigned tc_n;
static void tc_flush_if_full(void)
{
	if (tc_n < TC_CAP / 3) return;
	for (unsigned i = 0; i < TC_CAP; i++) { free(tc[i].text); tc[i].text = NULL; }
	tc_n = 0;
}
static const char *msg_text(const msg_t *m, size_t *lenp)
{
	uint64_t h = vx_mix(m->shape * 0x9e3779b97f4a7c15ULL ^ vx_mix(m->a[0]) ^ vx_mix(m->a[1] + 0x1234567) ^ vx_mix(m->a[2] + 0x89abcdef01ULL));
	unsigned i = (unsigned)h & (TC_CAP - 1);
	for (; tc[i].text; i = (i + 1) & (TC_CAP - 1))
		if (0 == memcmp(&tc[i].m, m, sizeof(*m))) { if (lenp) *lenp = tc[i].len; return tc[i].text; }
	if (tc_n >= TC_CAP - 64) die("text table full");
	tc[i].m = *m; tc[i].text = ref_text(m, &tc[i].len); tc_n++;
	if (lenp) *lenp = tc[i].len;
	return tc[i].text;
}

/* hand the message to the real code, every argument with its C type, as many arguments as the format has conversions */
typedef void (*logfn_t)(const char *, ...);
#define A_T_L(i) ((unsigned long)m->a[i])
#define A_T_I(i) ((int)(int64_t)m->a[i])
#define A_T_P(i) (strs[m->a[i]].p)
#define C1(x) case x: fn(f, A_##x(0)); break;
#define C2(x, y) case x * 3 + y: fn(f, A_##x(0), A_##y(1)); break;
#define C3(x, y, z) case (x * 3 + y) * 3 + z: fn(f, A_##x(0), A_##y(1), A_##z(2)); break;
#define C3R(x, y) C3(x, y, T_L) C3(x, y, T_I) C3(x, y, T_P)
#define C3RR(x) C3R(x, T_L) C3R(x, T_I) C3R(x, T_P)
/* the argument registers a call does not use hold whatever the caller left there; give them the same content on every
 * call so that "the same call again" really is the same call */
static __attribute__((noinline)) void scrub(uint64_t a, uint64_t b, uint64_t c, uint64_t d, uint64_t e, uint64_t f)
{
	__asm__ volatile("" : : "r"(a), "r"(b), "r"(c), "r"(d), "r"(e), "r"(f) : "memory");
}
static __attribute__((noinline)) void issue(const msg_t *m, int nice)
{
	const shape_t *sh = &shapes[m->shape];
	const char *f = sh->fmt;
	logfn_t fn = nice ? mlog_nice : mlog;
	scrub(0, 0, 0, 0, 0, 0);
	switch (sh->nargs) {
	case 0: fn(f); break;
	case 1: switch (sh->typ[0]) { C1(T_L) C1(T_I) C1(T_P) } break;
	case 2: switch (sh->typ[0] * 3 + sh->typ[1]) { C2(T_L, T_L) C2(T_L, T_I) C2(T_L, T_P) C2(T_I, T_L) C2(T_I, T_I) C2(T_I, T_P) C2(T_P, T_L) C2(T_P, T_I) C2(T_P, T_P) } break;
	case 3: switch ((sh->typ[0] * 3 + sh->typ[1]) * 3 + sh->typ[2]) { C3RR(T_L) C3RR(T_I) C3RR(T_P) } break;
	}
}

/* ---- the ladder: message number seq (0-based) of the real calls that build the start states */
static int SH_Z[8], SH_B1, SH_B2, SH_B3, ST_W[4];
static const char *f_z[8], *f_b1, *f_b2, *f_b3, *p_w[4];
static void gen(uint64_t seq, msg_t *m)
{
	switch (seq & 3) {
	case 0: mk(m, SH_Z[(seq >> 2) & 7], 0, 0, 0); break;
	case 1: mk(m, SH_B1, seq + (1ULL << 40), 0, 0); break;				/* first argument >= 2^32 */
	case 2: mk(m, SH_B2, seq, (uint64_t)ST_W[(seq >> 2) & 3], 0); break;			/* a pointer second */
	default: mk(m, SH_B3, (uint64_t)(int64_t)-(int)(seq & 1023), 'A' + ((seq >> 2) & 15), seq * 0x100000001ULL); break; /* third >= 2^32 */
	}
}
/* the same message through direct, typed calls (the oracle would show any disagreement with gen) */
static inline void bulk_issue(uint64_t seq)
{
	switch (seq & 3) {
	case 0: mlog(f_z[(seq >> 2) & 7]); break;
	case 1: mlog(f_b1, (unsigned long)(seq + (1ULL << 40))); break;
	case 2: mlog(f_b2, (unsigned long)seq, p_w[(seq >> 2) & 3]); break;
	default: mlog(f_b3, -(int)(seq & 1023), (int)('A' + ((seq >> 2) & 15)), (unsigned long)(seq * 0x100000001ULL)); break;
	}
}

/* ---- count family: the message an operation issues rotates with its sequence number */
static int SH_C[8], ST_C[2];
static void count_msg(uint64_t seq, msg_t *m)
{
	uint64_t u = seq ^ 0xabcd00000000ULL;
	switch (seq & 7) {
	case 0: mk(m, SH_C[0], u, 0, 0); break;							/* "%lu" wide */
	case 1: mk(m, SH_C[1], (uint64_t)ST_C[seq >> 3 & 1], u, 0); break;				/* %s first, wide second */
	case 2: mk(m, SH_C[2], 0, 0, 0); break;								/* no argument */
	case 3: mk(m, SH_C[3], seq, (uint64_t)(int64_t)-(int)(seq & 0xffff), (uint64_t)ST_C[~seq >> 3 & 1]); break;	/* %s third */
	case 4: mk(m, SH_C[4], 0, 0, 0); break;								/* no argument, no newline */
	case 5: mk(m, SH_C[5], u, ~u, u << 20 | 5); break;						/* three wide ones */
	case 6: mk(m, SH_C[6], (uint64_t)(int64_t)(int)(seq * 2654435761u), 'a' + seq % 26, 0); break;
	default: mk(m, SH_C[7], seq, 0, 0); break;
	}
}

/* ---- content family: the menu */
typedef struct { msg_t m; char label[56]; uint8_t reduced; } menu_t;
#define MAXMENU 256
static menu_t menu[MAXMENU]; static int nmenu, nreduced;
__attribute__((format(printf, 6, 7)))
static void menu_add(int reduced, int shape, uint64_t a0, uint64_t a1, uint64_t a2, const char *fmt, ...)
{
	if (nmenu >= MAXMENU) die("menu full");
	menu_t *e = &menu[nmenu++];
	mk(&e->m, shape, a0, a1, a2);
	e->reduced = (uint8_t)reduced; nreduced += reduced;
	va_list ap; va_start(ap, fmt); vsnprintf(e->label, sizeof(e->label), fmt, ap); va_end(ap);
}

static void setup_tables(void)
{
	static const char *const zt[8] = { "zero-a\n", "zero-b\n", "zero-c\n", "zero-d\n", "zero-e\n", "zero-f\n", "zero-g\n", "zero-h (no newline)|" };
	static const char *const wt[4] = { "alpha", "bravo", "charlie", "" };
	for (int i = 0; i < 8; i++) { SH_Z[i] = add_shape(zt[i]); f_z[i] = shapes[SH_Z[i]].fmt; }
	for (int i = 0; i < 4; i++) { ST_W[i] = add_str_n(wt[i], strlen(wt[i])); p_w[i] = strs[ST_W[i]].p; }
	SH_B1 = add_shape("one #%lu\n"); f_b1 = shapes[SH_B1].fmt;
	SH_B2 = add_shape("two #%lu [%s]\n"); f_b2 = shapes[SH_B2].fmt;
	SH_B3 = add_shape("three %d '%c' #%lx\n"); f_b3 = shapes[SH_B3].fmt;

	ST_C[0] = add_str_n("delta", 5); ST_C[1] = add_str_n("echo echo", 9);
	SH_C[0] = add_shape("c0 %lu\n"); SH_C[1] = add_shape("c1 %s=%lx\n"); SH_C[2] = add_shape("c2 plain\n");
	SH_C[3] = add_shape("c3 %lu %d <%s>\n"); SH_C[4] = add_shape("c4 open|"); SH_C[5] = add_shape("c5 %lx %lu %lx\n");
	SH_C[6] = add_shape("c6 %d%c\n"); SH_C[7] = add_shape("c7 100%% #%lu\n");

	int s_empty = add_str_n("", 0), s_a = add_str_n("a", 1), s_hello = add_str_n("hello world", 11), s_key = add_str_n("key", 3);
	/* forms */
	menu_add(1, add_shape(""), 0, 0, 0, "fmt:empty");
	menu_add(0, add_shape("\n"), 0, 0, 0, "fmt:newline-only");
	menu_add(1, add_shape("plain text\n"), 0, 0, 0, "fmt:plain");
	menu_add(1, add_shape("no trailing newline"), 0, 0, 0, "fmt:no-newline");
	menu_add(1, add_shape("100%%\n"), 0, 0, 0, "fmt:percent");
	menu_add(1, add_shape("%%"), 0, 0, 0, "fmt:percent-only");
	menu_add(0, add_shape("%%%% %%|"), 0, 0, 0, "fmt:percents-no-newline");
	menu_add(1, add_shape("v=%lu\n"), 42, 0, 0, "1arg:%%lu");
	menu_add(1, add_shape("%lx"), 0xdeadbeefcafeULL, 0, 0, "1arg:%%lx-wide-no-newline");
	menu_add(0, add_shape("%d\n"), (uint64_t)(int64_t)-7, 0, 0, "1arg:%%d");
	menu_add(0, add_shape("[%c]\n"), 'q', 0, 0, "1arg:%%c");
	menu_add(1, add_shape("%s\n"), (uint64_t)s_hello, 0, 0, "1arg:%%s");
	menu_add(1, add_shape("%s"), (uint64_t)s_hello, 0, 0, "1arg:%%s-no-newline");
	menu_add(0, add_shape("<%s>\n"), (uint64_t)s_empty, 0, 0, "1arg:%%s-empty-string");
	menu_add(0, add_shape("%% %lu %%\n"), 7, 0, 0, "1arg:%%lu-between-percents");
	menu_add(1, add_shape("%lu,%lu\n"), 1, 2, 0, "2arg:%%lu,%%lu");
	menu_add(1, add_shape("%s=%lu\n"), (uint64_t)s_key, (1ULL << 33) + 5, 0, "2arg:%%s=%%lu-wide");
	menu_add(0, add_shape("%lu:%s"), 1ULL << 40, (uint64_t)s_hello, 0, "2arg:%%lu-wide:%%s-no-newline");
	menu_add(0, add_shape("%d %d\n"), (uint64_t)(int64_t)-1, (uint64_t)(int64_t)INT_MIN, 0, "2arg:%%d,%%d");
	menu_add(1, add_shape("%lu %lu %lu\n"), 11, 22, 33, "3arg:small");
	menu_add(1, add_shape("%s|%s|%s\n"), (uint64_t)s_a, (uint64_t)s_hello, (uint64_t)s_key, "3arg:%%s,%%s,%%s");
	menu_add(0, add_shape("%s %lu %lu\n"), (uint64_t)s_hello, 1ULL << 32, ~0ULL, "3arg:%%s-first");
	menu_add(1, add_shape("%lu %s %lu\n"), 1ULL << 32, (uint64_t)s_hello, ~0ULL, "3arg:%%s-second");
	menu_add(0, add_shape("%lu %lu %s\n"), 1ULL << 32, ~0ULL, (uint64_t)s_hello, "3arg:%%s-third");
	menu_add(1, add_shape("%d %c %s"), (uint64_t)(int64_t)-5, 'Z', (uint64_t)s_hello, "3arg:%%d,%%c,%%s-no-newline");
	menu_add(0, add_shape("%lx%lx%lx"), 0xabcULL << 36, 0xdefULL << 40, 0x123456789abcdefULL, "3arg:%%lx-adjacent");
	/* values: both sides of every width an argument slot could be cut to, in every position */
	static const uint64_t V[] = { 0, 1, 0x7f, 0x80, 0xff, 0x100, 0x7fff, 0x8000, 0xffff, 0x10000, 0x7fffffffULL, 0x80000000ULL,
		0xffffffffULL, 0x100000000ULL, 0x7fffffffffffffffULL, 0x8000000000000000ULL, 0xffffffffffffffffULL };
	int sh_u3 = add_shape("u %lu %lu %lu\n"), sh_d3 = add_shape("d %d %d %d\n");
	for (int pos = 0; pos < 3; pos++)
		for (unsigned i = 0; i < sizeof(V) / sizeof(V[0]); i++) {
			uint64_t a[3] = { 11, 22, 33 }; a[pos] = V[i];
			menu_add((pos == 0 && V[i] == 0x100000000ULL) || (pos == 1 && V[i] == 0x80000000ULL) || (pos == 2 && V[i] == 0xffffffffffffffffULL), sh_u3, a[0], a[1], a[2],
				 "value:%%lu:arg%d=0x%llx", pos, (unsigned long long)V[i]);
		}
	static const int D[] = { INT_MIN, -1, INT_MAX };
	for (int pos = 0; pos < 3; pos++)
		for (int i = 0; i < 3; i++) {
			uint64_t a[3] = { 11, 22, 33 }; a[pos] = (uint64_t)(int64_t)D[i];
			menu_add(pos == 1 && D[i] == INT_MIN, sh_d3, a[0], a[1], a[2], "value:%%d:arg%d=%d", pos, D[i]);
		}
	/* line lengths: both sides of every power of two a buffer could have, through an argument and through the format */
	int sh_sn = add_shape("%s\n"), sh_usu = add_shape("%lu %s %lu");
	for (int j = 5; j <= 16; j++)
		for (int d = -1; d <= 1; d++) {
			size_t L = ((size_t)1 << j) + (size_t)(int64_t)d;
			char *p = pattern(L - 1, (unsigned)L);
			int si = add_str_n(p, L - 1);
			menu_add(L == 129 || L == 257, sh_sn, (uint64_t)si, 0, 0, "line:%zu-bytes:%%s", L);
			free(p);
			p = pattern(L, (unsigned)L + 17); p[L - 1] = '\n';
			menu_add(L == 1025 || L == 4097, add_shape_n(p, L), 0, 0, 0, "line:%zu-bytes:literal-format", L);
			free(p);
			if (L == 257 || L == 1025 || L == 4097) menu_add(0, sh_usu, 1ULL << 32, (uint64_t)si, 77, "line:%zu+-bytes:%%lu,%%s,%%lu", L);
		}
}

/* -------------------------------------------------------------- live state */

#define MAXEXP 10
static const int extra_k[] = { INT_MIN, INT_MIN + 255, -65536, -257, -256, -255, 511, 512, 65536, INT_MAX - 255, INT_MAX };
#define NKSEQ 261
#define NK (NKSEQ + (int)(sizeof(extra_k) / sizeof(extra_k[0])))
#define R_DUMP NK
#define NREADS (NK + 1)
static int kval(int i) { return i < NKSEQ ? i - 2 : extra_k[i - NKSEQ]; }
static int kidx(int k)
{
	if (k >= -2 && k <= 258) return k + 2;
	for (int i = NKSEQ; i < NK; i++) if (extra_k[i - NKSEQ] == k) return i;
	return -1;
}
/* the reads that can become operations of the search (when they are found to change the library's statics): the dump and
 * mlog_get_line(k) for the k classes relative to the number v of visible lines at that moment */
#define NREP 12
#define NREADOPS (NREP + 1)
static const char *const repname[NREADOPS] = { "-1", "0", "1", "v-2", "v-1", "v", "v+1", "254", "255", "256", "INT_MIN", "INT_MAX", NULL };
static int repk(int j, uint64_t vis)
{
	const int v = (int)vis, t[NREP] = { -1, 0, 1, v - 2, v - 1, v, v + 1, 254, 255, 256, INT_MIN, INT_MAX };
	return t[j];
}
/* read index of read operation j in a state with vis visible lines; -1 = the same read as an earlier j */
static int rep_read(int j, uint64_t vis)
{
	if (j == NREP) return NK;	/* R_DUMP */
	int k = repk(j, vis);
	for (int i = 0; i < j; i++) if (repk(i, vis) == k) return -1;
	return kidx(k);
}

static struct live {
	/* model: messages since the last clear = gen(fill_base+0..fill_n-1) ++ exp[0..nexp-1] */
	uint64_t n, seq, fill_n, fill_base;
	uint32_t nexp, depth;
	msg_t exp[MAXEXP];
	msg_t last; uint32_t last_valid;		/* the previous message call (for "the same call again") */
	uint32_t reads_used;				/* read operations in this history (at most MAXREADOPS: 1 quick, 2 thorough) */
	uint8_t impure[(NREADS + 7) / 8];		/* reads that changed the library image in this state (derived, not hashed) */
} S;

static void model_msg(uint64_t i, msg_t *m)
{
	if (i < S.fill_n) gen(S.fill_base + i, m); else *m = S.exp[i - S.fill_n];
}
static const char *model_line(uint64_t i, size_t *len) { msg_t m; model_msg(i, &m); return msg_text(&m, len); }
static void model_append(const msg_t *m)
{
	if (S.nexp >= MAXEXP) die("explicit tail overflow");
	S.exp[S.nexp++] = *m; S.n++;
}
static void canon_model(vx_hasher *h)
{
	vx_h_u64(h, S.n); vx_h_u64(h, S.seq); vx_h_u64(h, S.fill_n); vx_h_u64(h, S.fill_base); vx_h_u64(h, S.nexp); vx_h_u64(h, S.last_valid); vx_h_u64(h, S.reads_used);
	vx_h_bytes(h, S.exp, sizeof(S.exp)); vx_h_bytes(h, &S.last, sizeof(S.last));
}

/* ------------------------------------------------------------------ oracle */

enum { FAM_COUNT, FAM_CONTENT };
enum { CTX_START, CTX_BFS };
static int fam, split_j, split_n = 1, bfs_depth;
static int ctx_mode; static uint64_t ctx_P, ctx_Q; static const char *ctx_after = "start";
static vx_bfs B;
static char cfgname[64];

static uint64_t n_lines_compared, n_null_expected, n_dumps, n_passes, max_n_seen, n_impure, n_reads, max_line_len;
static vx_set obs_set;
static int leaked_file;

static const char *region(void)
{
	return S.n == 0 ? "n=0" : S.n < RING ? "0<n<256" : S.n == RING ? "n=256" : S.n < FOLD ? "256<n<2^31-1" : "n>=2^31-1";
}
static void set_cfgname(void)
{
	if (fam == FAM_COUNT) snprintf(cfgname, sizeof(cfgname), "N%llu+%llu", (unsigned long long)ctx_P, (unsigned long long)ctx_Q);
	else snprintf(cfgname, sizeof(cfgname), "T%llu/%d/%d", (unsigned long long)ctx_P, split_j, split_n);
}

__attribute__((format(printf, 3, 4)))
static void fail(const char *clause, const char *detail, const char *fmt, ...)
{
	vx_sb sig = {0}, rep = {0}, hist = {0};
	va_list ap; va_start(ap, fmt); char *m = vx_vfmt(fmt, ap); va_end(ap);
	vx_sb_printf(&sig, "C20|%s|%s|%s|after:%s", clause, detail, region(), ctx_after);
	vx_sb_printf(&rep, "mode=bfs\n");
	if (ctx_mode == CTX_BFS) { vx_bfs_history(&B, &hist, &rep); B.max_states = 1; }	/* this search ends with its first counterexample */
	else { set_cfgname(); vx_sb_printf(&rep, "config=%s\nops=\n", cfgname); vx_sb_printf(&hist, "%s", ""); }
	char second[96] = "";
	if (ctx_Q) snprintf(second, sizeof(second), ", mlog_clear, %llu more real mlog calls", (unsigned long long)ctx_Q);
	vx_violation(sig.s, rep.s, "%s: %s -- start state: %llu messages logged by real mlog calls on an empty log%s; then [%s]; messages since last clear n=%llu",
		     clause, m, (unsigned long long)ctx_P, second, hist.s ? hist.s : "", (unsigned long long)S.n);
	free(m); free(sig.s); free(rep.s); free(hist.s);
}
static const char *fault_word(void) { return vx_fault_kind == VX_FAULT_ASSERT ? "assert" : vx_fault_kind == VX_FAULT_HANG ? "hang" : "signal"; }

/* a line for a message: at most 100 bytes of it, control characters escaped */
static const char *show(const char *t)
{
	static char buf[4][160]; static int rot;
	char *o = buf[rot = (rot + 1) & 3]; size_t len = strlen(t), n = 0;
	for (size_t i = 0; i < len && n < 100; i++) {
		unsigned char c = (unsigned char)t[i];
		if (c == '\n') { o[n++] = '\\'; o[n++] = 'n'; } else if (c < 0x20 || c >= 0x7f) { o[n++] = '?'; } else o[n++] = (char)c;
	}
	if (len > 100) n += (size_t)snprintf(o + n, 40, "... (%zu bytes)", len);
	o[n] = 0;
	return o;
}

/* the expected lines of this pass */
static const char *exp_line[RING]; static size_t exp_len[RING];
static uint64_t exp_vis, exp_base;
static char *expdump; static size_t expdump_len, expdump_cap;

/* which recent message has this text? returns 1 and the offset to `want`, or 0 */
static int find_msg(const char *text, uint64_t want, long long *off)
{
	uint64_t lo = want > 600 ? want - 600 : 0, hi = S.n;
	for (uint64_t i = hi; i-- > lo; ) if (0 == strcmp(model_line(i, NULL), text)) { *off = (long long)i - (long long)want; return 1; }
	return 0;
}

/* mlog_dump goes into a sink of the harness: bounded memory whatever the library writes, nothing of stdio's locking */
static struct { char *buf; size_t n, cap, limit; uint64_t total; } sink;
static ssize_t sink_write(void *c, const char *p, size_t n)
{
	(void)c;
	sink.total += n;
	size_t room = sink.limit > sink.n ? sink.limit - sink.n : 0, k = n < room ? n : room;
	if (sink.n + k + 1 > sink.cap) { sink.cap = (sink.n + k + 1) * 2; sink.buf = realloc(sink.buf, sink.cap); if (!sink.buf) _exit(3); }
	memcpy(sink.buf + sink.n, p, k); sink.n += k;
	return (ssize_t)n;
}

static char *volatile got_line; static volatile int cur_k;

/* mlog.h: "The string returned is dynamically allocated and should be freed using free()" - if free() does not survive the
 * pointer, that is the library's doing and must not take the worker down; 1 = violation recorded */
static int release_line(char *p, int k)
{
	if (!p) return 0;
	if (VX_TRY) { free(p); VX_END; return 0; }
	VX_END;
	fail("get_line-fault", "result cannot be freed", "free() of the string returned by mlog_get_line(%d): %s", k, vx_fault_msg);
	return 1;
}

/* one read on the live library, compared with the model; 1 = violation recorded */
static int do_read(int r, vx_hasher *h)
{
	char d[128];
	n_reads++;
	if (r != R_DUMP) {
		int k = kval(r);
		cur_k = k; got_line = NULL;
		if (VX_TRY) { got_line = mlog_get_line(k); VX_END; }
		else {
			VX_END;
			fail("get_line-fault", fault_word(), "mlog_get_line(%d): %s", k, vx_fault_msg);
			return 1;
		}
		char *got = got_line;
		const char *want = (k >= 0 && (uint64_t)k < exp_vis) ? exp_line[k] : NULL;
		int bad = 0;
		if (want) n_lines_compared++; else n_null_expected++;
		if (h) { if (got) vx_h_bytes(h, got, strlen(got) + 1); else vx_h_u64(h, 0xdeadULL); }
		if (!want && got) {
			fail("get_line-not-null", k < 0 ? "negative k" : "k>=min(n,256)", "mlog_get_line(%d) returned \"%s\", must be NULL (%llu lines visible)",
			     k, show(got), (unsigned long long)exp_vis);
			bad = 1;
		} else if (want && !got) {
			fail("get_line-null", "line missing", "mlog_get_line(%d) returned NULL, must be \"%s\" (%llu lines visible)", k, show(want), (unsigned long long)exp_vis);
			bad = 1;
		} else if (want && (strlen(got) != exp_len[k] || memcmp(want, got, exp_len[k]))) {
			long long off; size_t gl = strlen(got);
			if (find_msg(got, exp_base + (uint64_t)k, &off)) snprintf(d, sizeof(d), "is the message %+lld places from the right one", off);
			else if (gl < exp_len[k] && 0 == memcmp(want, got, gl)) snprintf(d, sizeof(d), "is cut short");
			else snprintf(d, sizeof(d), "is not a recent message");
			fail("get_line-text", d, "mlog_get_line(%d) returned \"%s\" (%zu bytes), must be \"%s\" (%zu bytes; message number %llu since the clear)",
			     k, show(got), gl, show(exp_line[k]), exp_len[k], (unsigned long long)(exp_base + (uint64_t)k));
			bad = 1;
		}
		if (bad) { if (VX_TRY) { free(got); VX_END; } else VX_END; return 1; }
		return release_line(got, k);
	}
	/* mlog_dump */
	static cookie_io_functions_t io = { NULL, sink_write, NULL, NULL };
	sink.n = 0; sink.total = 0; sink.limit = expdump_len + 65536;
	FILE *f = fopencookie(NULL, "w", io);
	if (!f) die("fopencookie");
	__fsetlocking(f, FSETLOCKING_BYCALLER);
	if (VX_TRY) { mlog_dump(f); VX_END; }
	else {
		VX_END;
		leaked_file = 1;	/* the FILE is in an unknown state: leave it alone */
		fail("dump-fault", fault_word(), "mlog_dump: %s", vx_fault_msg);
		return 1;
	}
	fclose(f);
	n_dumps++;
	if (h) vx_h_bytes(h, sink.buf ? sink.buf : "", sink.n);
	if (sink.total != expdump_len || memcmp(sink.buf ? sink.buf : "", expdump, expdump_len)) {
		size_t p = 0; while (p < expdump_len && p < sink.n && sink.buf[p] == expdump[p]) p++;
		fail("dump", sink.total < expdump_len ? "too short" : sink.total > expdump_len ? "too long" : "different text",
		     "mlog_dump wrote %llu bytes, the %llu visible lines are %zu bytes; first difference at byte %zu", (unsigned long long)sink.total,
		     (unsigned long long)exp_vis, expdump_len, p);
		return 1;
	}
	return 0;
}

static void expect_now(void)
{
	tc_flush_if_full();
	exp_vis = S.n < RING ? S.n : RING; exp_base = S.n - exp_vis;
	expdump_len = 0;
	for (uint64_t i = 0; i < exp_vis; i++) {
		exp_line[i] = model_line(exp_base + i, &exp_len[i]);
		if (expdump_len + exp_len[i] + 1 > expdump_cap) { expdump_cap = (expdump_len + exp_len[i] + 1) * 2; expdump = realloc(expdump, expdump_cap); if (!expdump) die("out of memory"); }
		memcpy(expdump + expdump_len, exp_line[i], exp_len[i]); expdump_len += exp_len[i];
		if (exp_len[i] > max_line_len) max_line_len = exp_len[i];
	}
	if (!expdump) { expdump = malloc(16); expdump_cap = 16; }
	expdump[expdump_len] = 0;
}

/* compare the library's statics with an image of them; where they differ put the image back. 1 = they were the same */
static int region_sync(uint8_t *live, const uint8_t *img, size_t n)
{
	uint64_t diff = 0; size_t i = 0;
	for (; i + 8 <= n; i += 8) {
		uint64_t a, b; memcpy(&a, live + i, 8); memcpy(&b, img + i, 8);
		if (a != b) { diff = 1; memcpy(live + i, &b, 8); }
	}
	for (; i < n; i++) if (live[i] != img[i]) { diff = 1; live[i] = img[i]; }
	return !diff;
}
static int lib_same(const uint8_t *img)
{
	size_t d = vx_lib_dsz(), b = vx_lib_bsz();
	if ((!d || !memcmp(img, __start_vxlibdata, d)) && (!b || !memcmp(img + d, __start_vxlibbss, b))) return 1;	/* the usual case */
	if (d) region_sync((uint8_t *)__start_vxlibdata, img, d);
	if (b) region_sync((uint8_t *)__start_vxlibbss, img + d, b);
	return 0;
}
static uint8_t *pass_img;

/* every read the property names, on the live library, each one from the state the last operation left (a read that
 * changes the image is noted in S.impure and undone); 1 = violation recorded */
static int reads_pass(void)
{
	vx_hasher h;
	n_passes++;
	if (S.n > max_n_seen) max_n_seen = S.n;
	expect_now();
	vx_lib_save(pass_img);
	memset(S.impure, 0, sizeof(S.impure));
	vx_h_init(&h);
#define STEP(r, hp) do { if (do_read((r), (hp))) return 1; \
		if (!lib_same(pass_img)) { S.impure[(r) >> 3] |= (uint8_t)(1u << ((r) & 7)); n_impure++; } } while (0)
	for (int r = 0; r < NK; r++) STEP(r, &h);
	STEP(R_DUMP, &h);
	STEP(R_DUMP, NULL);								/* the dump again */
	const int again[6] = { -1, 0, (int)exp_vis - 1, (int)exp_vis, RING - 1, RING };	/* the same k twice in a row */
	for (int i = 0; i < 6; i++) { int r = kidx(again[i]); if (r < 0) continue; STEP(r, NULL); STEP(r, NULL); }
#undef STEP
	vx_set_add(&obs_set, vx_h_done(&h));
	return 0;
}

/* --------------------------------------------------------------- operations */

enum { OK_MLOG, OK_NICE, OK_CLEAR, OK_READ, OK_REP_MLOG, OK_REP_NICE, OK_KINDS };
static const char *kindname[OK_KINDS] = { "mlog", "mlog_nice", "mlog_clear", "read", "mlog-again", "mlog_nice-again" };
static uint64_t op_count[OK_KINDS], nice_recorded, nice_declined_room, nice_full, read_ops_get, read_ops_dump;
static uint64_t fam_states[2], fam_transitions[2], fam_units[2];

static int op_kind(int op, int *arg)
{
	*arg = 0;
	if (fam == FAM_COUNT) { if (op < 3) return op; *arg = op - 3; return OK_READ; }
	if (op == 0) return OK_CLEAR;
	if (op == 1) return OK_REP_MLOG;
	if (op == 2) return OK_REP_NICE;
	if (op < 3 + NREADOPS) { *arg = op - 3; return OK_READ; }
	op -= 3 + NREADOPS; *arg = op >> 1;
	return (op & 1) ? OK_NICE : OK_MLOG;
}
static int fam_nops(void) { return fam == FAM_COUNT ? 3 + NREADOPS : 3 + NREADOPS + 2 * nmenu; }
#define MAXREADOPS (vx_thorough() ? 2 : 1)	/* read operations per history */

static int op_enabled(int op)
{
	int arg, kind = op_kind(op, &arg);
	if (kind == OK_READ) {
		int r = rep_read(arg, S.n < RING ? S.n : RING);
		return r >= 0 && S.reads_used < MAXREADOPS && ((S.impure[r >> 3] >> (r & 7)) & 1);
	}
	if (fam == FAM_COUNT) return 1;
	if (kind == OK_CLEAR) return S.depth ? 1 : split_j == 0;
	if (kind == OK_REP_MLOG || kind == OK_REP_NICE) return S.depth && S.last_valid;
	if (S.depth == 0) return (op - 3 - NREADOPS) % split_n == split_j;
	return menu[arg].reduced;
}
static void op_describe(int op, vx_sb *sb)
{
	int arg, kind = op_kind(op, &arg);
	if (kind == OK_READ) { if (arg == NREP) vx_sb_printf(sb, "mlog_dump"); else vx_sb_printf(sb, "mlog_get_line(%s)", repname[arg]); }
	else if (fam == FAM_CONTENT && (kind == OK_MLOG || kind == OK_NICE)) vx_sb_printf(sb, "%s[%s]", kindname[kind], menu[arg].label);
	else vx_sb_printf(sb, "%s", kindname[kind]);
}
static void op_canon(vx_hasher *h) { canon_model(h); }	/* the engine adds the image of the library's statics */

static int op_apply(int op)
{
	msg_t m; int arg, kind = op_kind(op, &arg), nice = (kind == OK_NICE || kind == OK_REP_NICE);
	op_count[kind]++;
	ctx_mode = CTX_BFS;
	ctx_after = kind == OK_READ ? (arg == NREP ? "dump" : "get_line") : kind == OK_REP_MLOG || kind == OK_REP_NICE ? "same-call-again" : kindname[kind];
	S.depth++;
	if (kind == OK_READ) {
		/* a read that is known to change the library's statics: done for real, its effect stays */
		if (arg == NREP) read_ops_dump++; else read_ops_get++;
		S.reads_used++;
		expect_now();
		if (do_read(rep_read(arg, exp_vis), NULL)) return 1;
		return reads_pass();
	}
	if (kind == OK_CLEAR) {
		if (VX_TRY) { mlog_clear(); VX_END; }
		else { VX_END; fail("op-fault", "mlog_clear", "%s", vx_fault_msg); return 1; }
		S.n = S.fill_n = S.fill_base = 0; S.nexp = 0; memset(S.exp, 0, sizeof(S.exp));
		return reads_pass();
	}
	if (kind == OK_REP_MLOG || kind == OK_REP_NICE) m = S.last;
	else if (fam == FAM_COUNT) count_msg(S.seq, &m);
	else m = menu[arg].m;
	if (VX_TRY) { issue(&m, nice); VX_END; }
	else { VX_END; fail("op-fault", nice ? "mlog_nice" : "mlog", "%s", vx_fault_msg); return 1; }
	if (!nice) model_append(&m);
	else if (S.n >= RING) nice_full++;		/* must not record: the reads pass shows it if it did */
	else {
		/* room: the statement does not say that it must record - look whether a line was added */
		got_line = NULL;
		if (VX_TRY) { got_line = mlog_get_line((int)S.n); VX_END; }
		else { VX_END; fail("get_line-fault", fault_word(), "mlog_get_line(%d): %s", (int)S.n, vx_fault_msg); return 1; }
		if (got_line) { if (release_line(got_line, (int)S.n)) return 1; model_append(&m); nice_recorded++; } else nice_declined_room++;
	}
	if (kind == OK_MLOG || kind == OK_NICE) S.seq++;
	S.last = m; S.last_valid = 1;
	return reads_pass();
}

/* ------------------------------------------------------------------ the ladder */

static uint64_t bulk_calls;
static volatile uint64_t bulk_pos;
/* issue messages gen(from..to-1) through the real mlog; 1 on fault. cleared_at = UINT64_MAX: the calls continue the
 * ladder from an empty log; otherwise the log was cleared after cleared_at messages (second generation) */
static int bulk(uint64_t from, uint64_t to, uint64_t cleared_at)
{
	while (from < to) {
		uint64_t stop = (from | ((1u << 20) - 1)) + 1;
		if (stop > to) stop = to;
		bulk_pos = from;
		if (VX_TRY) {
			for (uint64_t s = from; s < stop; s++) { bulk_pos = s; bulk_issue(s); }
			VX_END;
		} else {
			VX_END;
			memset(&S, 0, sizeof(S)); S.seq = bulk_pos;
			bulk_calls += bulk_pos - from;
			fam = FAM_COUNT; ctx_mode = CTX_START; ctx_after = "start";
			if (cleared_at == UINT64_MAX) { S.n = S.fill_n = bulk_pos; ctx_P = bulk_pos + 1; ctx_Q = 0; }
			else { S.fill_base = cleared_at; S.n = S.fill_n = bulk_pos - cleared_at; ctx_P = cleared_at; ctx_Q = bulk_pos + 1 - cleared_at; }
			fail("op-fault", "mlog", "fault in real mlog call number %llu: %s", (unsigned long long)bulk_pos + 1, vx_fault_msg);
			return 1;
		}
		bulk_calls += stop - from;
		from = stop;
	}
	return 0;
}

/* ---------------------------------------------------------------- work units */

typedef struct { uint64_t P, Q; int fam, depth, split_j, split_n; } unit_t;
static unit_t *units; static int nunits, capunits;
static void unit_add(uint64_t P, uint64_t Q, int f, int depth, int sj, int sn)
{
	for (int i = 0; i < nunits; i++) if (units[i].P == P && units[i].Q == Q && units[i].fam == f && units[i].split_j == sj) { if (depth > units[i].depth) units[i].depth = depth; return; }
	if (nunits == capunits) { capunits = capunits ? capunits * 2 : 1024; units = realloc(units, sizeof(unit_t) * (size_t)capunits); if (!units) die("out of memory"); }
	units[nunits++] = (unit_t){ P, Q, f, depth, sj, sn };
}
static int unit_cmp(const void *a, const void *b)
{
	const unit_t *x = a, *y = b;
	if (x->P != y->P) return x->P < y->P ? -1 : 1;
	if (x->fam != y->fam) return x->fam - y->fam;
	if (x->Q != y->Q) return x->Q < y->Q ? -1 : 1;
	return x->split_j - y->split_j;
}
static const int pow_off[] = { -257, -256, -255, -2, -1, 0, 1, 2, 254, 255, 256, 257, 258 };
#define NPOWOFF ((int)(sizeof(pow_off) / sizeof(pow_off[0])))
#define MAIN_TOP_BIT 26			/* the main part climbs to 2^26+258; the fold part does 2^27 .. 2^31+ */
#define CONTENT_SPLIT 64
static const uint64_t second_q[] = { 1, 255, 256, 257 };

static int env_int(const char *name, int dflt) { const char *e = getenv(name); return e && atoi(e) > 0 ? atoi(e) : dflt; }

/* a start count of the count family: the search from the state after P real calls, and - second generation - from
 * the states after P real calls, mlog_clear and Q more real calls (a log that was used before it was cleared) */
static void count_start(uint64_t P, int D, int D2)
{
	unit_add(P, 0, FAM_COUNT, D, 0, 1);
	if (P) for (unsigned i = 0; i < sizeof(second_q) / sizeof(second_q[0]); i++) unit_add(P, second_q[i], FAM_COUNT, D2, 0, 1);
}

static void make_units(void)
{
#ifndef C20_FOLD
	int D = env_int("C20_DEPTH", vx_thorough() ? 8 : 5), D2 = vx_thorough() ? 4 : 2;
	/* every count 0..1030 is observed; the searches start from the counts around the multiples of 256 ... */
	for (uint64_t P = 0; P <= 1030; P++) unit_add(P, 0, FAM_COUNT, 0, 0, 1);
	static const uint64_t small[] = { 0, 1, 2, 254, 255, 256, 257, 258, 510, 511, 512, 513, 514, 766, 767, 768, 769, 770 };
	for (unsigned i = 0; i < sizeof(small) / sizeof(small[0]); i++) count_start(small[i], D, D2);
	/* ... and on both sides of every power of two (every width a counter could have) */
	for (int b = 9; b <= MAIN_TOP_BIT; b++)
		for (int j = 0; j < NPOWOFF; j++) count_start((1ULL << b) + (uint64_t)(int64_t)pow_off[j], D, D2);
	static const uint64_t cstart[] = { 0, 1, 255, 256, 257, 600 };
	int CD = env_int("C20_CDEPTH", vx_thorough() ? 3 : 2);
	for (unsigned i = 0; i < sizeof(cstart) / sizeof(cstart[0]); i++)
		for (int j = 0; j < CONTENT_SPLIT; j++)
			unit_add(cstart[i], 0, FAM_CONTENT, (CD > 2 && cstart[i] != 0 && cstart[i] != 256) ? 2 : CD, j, CONTENT_SPLIT);
#else
	int D = env_int("C20_DEPTH", vx_thorough() ? 6 : 4), D2 = vx_thorough() ? 3 : 2;
	for (int b = MAIN_TOP_BIT + 1; b <= 30; b++)
		for (int j = 0; j < NPOWOFF; j++) count_start((1ULL << b) + (uint64_t)(int64_t)pow_off[j], D, D2);
	for (uint64_t m = 1; m < 32; m++) unit_add(m << 26, 0, FAM_COUNT, 0, 0, 1);		/* observed on the way */
	int hi = vx_thorough() ? 600 : 299;
	for (int j = -300; j <= hi; j++) count_start(FOLD + (uint64_t)(int64_t)j, D, D2);
#endif
	qsort(units, (size_t)nunits, sizeof(unit_t), unit_cmp);
}

static void bfs_init(const unit_t *u)
{
	fam = u->fam; split_j = u->split_j; split_n = u->split_n; bfs_depth = u->depth;
	ctx_P = u->P; ctx_Q = u->Q; set_cfgname();
	memset(&B, 0, sizeof(B));
	B.live = &S; B.size = sizeof(S); B.nops = fam_nops(); B.enabled = op_enabled; B.apply = op_apply;
	B.canon = op_canon; B.describe = op_describe; B.name = cfgname; B.max_depth = u->depth;
}

/* the library holds the state after u->P real calls on an empty log: finish the start state of the unit (second
 * generation: mlog_clear and u->Q more real calls), set the model, run the first reads pass; 1 = violation recorded */
static int unit_start(const unit_t *u)
{
	fam = u->fam; split_j = u->split_j; split_n = u->split_n;
	ctx_mode = CTX_START; ctx_P = u->P; ctx_Q = u->Q; ctx_after = "start";
	memset(&S, 0, sizeof(S)); S.n = S.fill_n = S.seq = u->P;
	if (u->Q) {
		if (VX_TRY) { mlog_clear(); VX_END; }
		else { VX_END; fail("op-fault", "mlog_clear", "mlog_clear after %llu real mlog calls: %s", (unsigned long long)u->P, vx_fault_msg); return 1; }
		if (bulk(u->P, u->P + u->Q, u->P)) return 1;
		S.fill_base = u->P; S.n = S.fill_n = u->Q; S.seq = u->P + u->Q;
	}
	return reads_pass();
}

static int n_samples_fam[5];
static void run_unit(const unit_t *u)
{
	if (unit_start(u)) { vx_and("exhaustive", 0); return; }	/* counterexample in the start state: nothing searched from it */
	vx_count("traces", 1);
	if (u->Q) vx_count("second_generation_start_states", 1);
	if (u->depth == 0) { vx_count("counts_observed_only", 1); return; }
	bfs_init(u);
	vx_bfs_run(&B);
	fam_states[fam] += B.states; fam_transitions[fam] += B.transitions; fam_units[fam]++;
	vx_count("states", B.states);
	vx_count("transitions", B.transitions); vx_count("traces", B.transitions);
	vx_count("scope_guard_disabled_ops", B.disabled);
	vx_and("exhaustive", !B.capped);
	vx_max("max_depth", (uint64_t)B.depth_done);
	/* samples (worker 0 of each part): one search of each kind - content, count, second generation, and the last two again
	 * for the largest counts of the part */
#ifdef C20_FOLD
	int big = u->P >= FOLD - 1;
#else
	int big = u->P >= (1ULL << MAIN_TOP_BIT) - 257;
#endif
	int sf = fam == FAM_CONTENT ? 1 : big ? (u->Q ? 4 : 3) : (u->Q ? 2 : 0);
	if (B.capped) vx_note("search from %s stopped early (deadline or violation cap) at depth %d", cfgname, B.depth_done);
	else if (vx_args.worker == 0 && n_samples_fam[sf] < 1 && B.st.n > 1 && (fam == FAM_COUNT ? u->P > 256 : 1)) {
		vx_sb hs = {0}; char second[96] = "";
		uint64_t first = B.st.n - 1; while (first > 0 && B.st.depth[first - 1] == B.st.depth[B.st.n - 1]) first--;
		static uint32_t ops[16]; int n = vx_store_trace(&B.st, (first + B.st.n - 1) / 2, ops, 16);	/* the middle one of the deepest states */
		for (int i = 0; i < n; i++) { if (i) vx_sb_printf(&hs, "; "); op_describe((int)ops[i], &hs); }
		if (u->Q) snprintf(second, sizeof(second), ", mlog_clear and %llu more real calls", (unsigned long long)u->Q);
		vx_sample("%s family, start after %llu real mlog calls%s%s: %llu states, %llu transitions to depth %d; a deepest history: %s",
			  fam == FAM_COUNT ? "count" : "content", (unsigned long long)u->P, second, fam == FAM_CONTENT ? " (one of 64 slices of the first operation)" : "",
			  (unsigned long long)B.states, (unsigned long long)B.transitions, B.depth_done, hs.s ? hs.s : "");
		free(hs.s);
		n_samples_fam[sf]++;
	}
	vx_bfs_free(&B);
}

/* ---------------------------------------------------------------------- main */

int main(int argc, char **argv)
{
	vx_init(argc, argv);
	vx_install_handlers();
	vx_watchdog(2.0);
	if (!vx_lib_size()) die("built without lib=[...]: the library's statics are not visible");
	pass_img = malloc(vx_lib_size());
	uint8_t *img = malloc(vx_lib_size());
	if (!pass_img || !img) die("out of memory");
	vx_set_init(&obs_set, 16);
	setup_tables();
	char *rp = vx_read_replay();
	if (rp) {
		const char *cn = vx_replay_field(rp, "config");
		unit_t u = { 0, 0, FAM_COUNT, 0, 0, 1 };
		unsigned long long a = 0, q = 0;
		if (cn && cn[0] == 'T') { u.fam = FAM_CONTENT; sscanf(cn + 1, "%llu/%d/%d", &a, &u.split_j, &u.split_n); }
		else if (cn && cn[0] == 'N') sscanf(cn + 1, "%llu+%llu", &a, &q);
		u.P = a; u.Q = q;
		if (u.split_n < 1) u.split_n = 1;
		if (!bulk(0, u.P, UINT64_MAX) && !unit_start(&u)) { bfs_init(&u); vx_bfs_replay(&B, rp); }
		vx_finish();
		_exit(0);
	}
	make_units();
	uint64_t c = 0; int stopped = 0;
	uint64_t img_P = UINT64_MAX;
	for (int i = 0; i < nunits && !stopped; i++) {
		if (!vx_mine((uint64_t)i)) continue;
		if (vx_deadline_passed()) { vx_and("exhaustive", 0); vx_note("start states skipped: deadline"); break; }
		if (vx_too_many_violations() || vx_hangs_seen >= 3) { vx_and("exhaustive", 0); vx_note("start states skipped: too many violations / hangs"); break; }
		const unit_t *u = &units[i];
		if (img_P != u->P) {
			if (img_P != UINT64_MAX) vx_lib_restore(img);		/* back to the ladder */
			/* climb: real calls, nothing else */
			while (c < u->P) {
				uint64_t stop = c + (1u << 24) < u->P ? c + (1u << 24) : u->P;
				if (bulk(c, stop, UINT64_MAX)) { stopped = 1; break; }
				c = stop;
				if (vx_deadline_passed() && c < u->P) { vx_note("ladder of real calls cut by the deadline after %llu calls", (unsigned long long)c); stopped = 1; break; }
			}
			if (stopped) { vx_and("exhaustive", 0); break; }
			vx_lib_save(img); img_P = u->P;
			vx_count("start_images_taken", 1);
			vx_max("max_start_count_reached_by_real_calls", u->P);
		} else vx_lib_restore(img);
		run_unit(u);
	}
	for (int f = 0; f < 2; f++) {
		vx_count(f ? "content_family_states" : "count_family_states", fam_states[f]);
		vx_count(f ? "content_family_transitions" : "count_family_transitions", fam_transitions[f]);
		vx_count(f ? "content_family_searches" : "count_family_searches", fam_units[f]);
	}
	vx_count("distinct", obs_set.n);
	vx_count("distinct_observation_tuples", obs_set.n);
	vx_count("reads_passes", n_passes);
	vx_count("reads_executed", n_reads);
	vx_count("get_line_text_compared", n_lines_compared);
	vx_count("get_line_null_expected", n_null_expected);
	vx_count("dumps_compared", n_dumps);
	vx_count("reads_that_changed_library_statics", n_impure);
	vx_count("read_operations_in_search_get_line", read_ops_get);
	vx_count("read_operations_in_search_dump", read_ops_dump);
	vx_count("real_mlog_calls_on_the_ladder", bulk_calls);
	vx_count("nice_recorded", nice_recorded);
	vx_count("nice_declined_although_room_not_judged", nice_declined_room);
	vx_count("nice_with_256_recorded", nice_full);
	vx_max("content_menu_size", (uint64_t)nmenu); vx_max("content_reduced_menu_size", (uint64_t)nreduced);
	vx_max("max_messages_since_clear", max_n_seen);
	vx_max("max_line_bytes", max_line_len);
	vx_max("library_static_image_bytes", vx_lib_size());
	for (int k = 0; k < OK_KINDS; k++) { char nm[64]; snprintf(nm, sizeof(nm), "op_%s", kindname[k]); vx_count(nm, op_count[k]); }
	if (nice_declined_room && !nice_recorded) vx_note("mlog_nice never recorded anything although there was room (not demanded by the statement, so not judged)");
	vx_finish();
	if (leaked_file) _exit(0);
	return 0;
}

/*
 * C20 - the memory log always holds the most recent 256 messages, oldest first.
 *
 * #include "mlog.c" makes the static `log` visible (snapshot / restore /
 * positioning of the message counter) with no edit to librfn.
 *
 * Model: an UNBOUNDED list of the messages recorded since the last mlog_clear -
 * a 64-bit count n, a lazily generated prefix (message i of the bulk phase is a
 * pure function gen(i) of its sequence number) and an explicit tail for the
 * operations of the search. No ring arithmetic, no folding.
 *
 * Search: for every start state (message count P in {0,1,254..258,510..514}, P = 2^b + {-1,0,1,255,256}
 * for b = 9..30 (every width the counter could be narrowed to), and
 * P = 0x7fffffff+j, j = -300..299, i.e. every residue mod 256 on both sides of
 * the point where mlog.c folds its counter) vx_bfs over all sequences of <= D
 * operations from {mlog with 0,1,2,3 arguments, mlog_nice, mlog_clear}. After
 * building the start state and after every operation: mlog_get_line(k) for
 * k = -2..258 and a few extreme k, and the mlog_dump output (fmemopen), are
 * compared with the model.
 *
 * Start states with P <= 1024 are produced by P real mlog calls. The others are
 * produced by setting log.head = P-300 (a value the counter really has after
 * P-300 calls as long as it has not folded: head == count, checked by the long
 * run) followed by 300 real mlog calls, so ring content, slot alignment and the
 * fold itself are produced by the real code.
 *
 * Thorough tier, long run: 2^31+600 real mlog calls from an empty log with no
 * positioning; compared with the model after every call near the start and
 * around the fold, and at every P of the positioned set the implementation
 * state (head + all 256 slots) and the observations must equal those of the
 * positioned construction (conformance of the shortcut).
 */
#include "vx.h"

#include <limits.h>

#include "mlog.c"

uint32_t time_now(void) { return 0; }	/* referenced by librfn/util.c (ratelimit_check), not used here */

#define RING 256
#define FOLD 0x7fffffffULL		/* message count at which mlog.c first folds its counter */

/* ----------------------------------------------------------------- messages */

enum { F_Z0, F_Z1, F_Z2, F_Z3, F_Z4, F_Z5, F_Z6, F_ONE, F_TWO, F_THREE, F_NICE, NFMT };
static const char *const fmts[NFMT] = {
	"zero-a\n", "zero-b\n", "zero-c\n", "zero-d\n", "zero-e\n", "zero-f\n", "zero-g\n",
	"one #%lu\n", "two #%lu [%s]\n", "three #%lu %d '%c'\n", "nice #%lu/%lx\n",
};
/* one argument is long enough to make the formatted line exceed any small fixed buffer (150 characters) */
static const char *const words[5] = { "alpha", "bravo", "charlie", "delta",
	"echo-echo-echo-echo-echo-echo-echo-echo-echo-echo-echo-echo-echo-echo-echo-echo-echo-echo-echo-echo-echo-echo-echo-echo-echo-echo-echo-echo-echo-echo" };
enum { K_ZERO, K_ONE, K_TWO, K_THREE, K_NICE };

typedef struct { uint8_t kind, f; uint64_t a[3]; } msg_t;

static void make_msg(int kind, uint64_t seq, msg_t *m)
{
	memset(m, 0, sizeof(*m));
	m->kind = (uint8_t)kind;
	switch (kind) {
	case K_ZERO: m->f = (uint8_t)(F_Z0 + seq % 7); break;
	case K_ONE: m->f = F_ONE; m->a[0] = seq; break;
	case K_TWO: m->f = F_TWO; m->a[0] = seq; m->a[1] = seq % 5; break;
	case K_THREE: m->f = F_THREE; m->a[0] = seq; m->a[1] = (uint64_t)(int64_t)-(int)(seq % 1000); m->a[2] = 'A' + seq % 26; break;
	case K_NICE: m->f = F_NICE; m->a[0] = seq; m->a[1] = seq ^ 0x5a5a; break;
	}
}
/* message number seq of the bulk phase */
static void gen(uint64_t seq, msg_t *m) { make_msg((int)(seq & 3), seq, m); }

/* the reference formatting, with properly typed arguments */
static void msg_text(const msg_t *m, char *out, size_t n)
{
	switch (m->kind) {
	case K_ZERO: snprintf(out, n, "%s", fmts[m->f]); break;	/* no conversion in these formats */
	case K_ONE: snprintf(out, n, fmts[F_ONE], (unsigned long)m->a[0]); break;
	case K_TWO: snprintf(out, n, fmts[F_TWO], (unsigned long)m->a[0], words[m->a[1]]); break;
	case K_THREE: snprintf(out, n, fmts[F_THREE], (unsigned long)m->a[0], (int)(int64_t)m->a[1], (int)m->a[2]); break;
	case K_NICE: snprintf(out, n, fmts[F_NICE], (unsigned long)m->a[0], (unsigned long)m->a[1]); break;
	}
}
/* hand the message to the real code */
static void issue(const msg_t *m, int nice)
{
	const char *f = fmts[m->f];
	switch (m->kind) {
	case K_ZERO: if (nice) mlog_nice(f); else mlog(f); break;
	case K_ONE: mlog(f, (unsigned long)m->a[0]); break;
	case K_TWO: mlog(f, (unsigned long)m->a[0], words[m->a[1]]); break;
	case K_THREE: mlog(f, (unsigned long)m->a[0], (int)(int64_t)m->a[1], (int)m->a[2]); break;
	case K_NICE: mlog_nice(f, (unsigned long)m->a[0], (unsigned long)m->a[1]); break;
	}
}

/* -------------------------------------------------------------- live state */

#define TEXTMAX 192
#define MAXEXP 8
static struct live {
	struct mlog lg;			/* image of mlog.c's static log (copied in/out around every operation) */
	/* model: messages since the last clear = gen(fill_base+0..fill_n-1) ++ exp[0..nexp-1] */
	uint64_t n, seq, fill_n, fill_base;
	uint32_t nexp, depth;
	struct { msg_t m; char text[TEXTMAX]; } exp[MAXEXP];
} S;

/* memo of bulk-phase texts (direct mapped; purely a cache of msg_text(gen(seq))) */
static struct { uint64_t seq1; char text[TEXTMAX]; } memo[1024];
static const char *bulk_text(uint64_t seq)
{
	unsigned i = (unsigned)(seq & 1023);
	if (memo[i].seq1 != seq + 1) { msg_t m; gen(seq, &m); msg_text(&m, memo[i].text, TEXTMAX); memo[i].seq1 = seq + 1; }
	return memo[i].text;
}
/* text of message number i (0-based) since the last clear */
static const char *model_line(uint64_t i)
{
	if (i < S.fill_n) return bulk_text(S.fill_base + i);
	return S.exp[i - S.fill_n].text;
}
static void model_append(const msg_t *m)
{
	if (S.nexp >= MAXEXP) { fprintf(stderr, "c20: explicit tail overflow\n"); _exit(3); }
	S.exp[S.nexp].m = *m; memset(S.exp[S.nexp].text, 0, TEXTMAX); msg_text(m, S.exp[S.nexp].text, TEXTMAX);
	S.nexp++; S.n++;
}

/* canonical form of the implementation: counter + all 256 slots (stale ones too), format by index and only the
 * argument bits the format consumes (unused variadic slots hold register garbage) */
static void canon_impl(vx_hasher *h)
{
	vx_h_u64(h, log.head);
	for (int i = 0; i < RING; i++) {
		const struct mlog_line *l = &log.line[i];
		int f = l->fmt ? NFMT + 1 : NFMT;
		for (int k = 0; k < NFMT; k++) if (l->fmt == fmts[k]) f = k;
		vx_h_u64(h, (uint64_t)f);
		switch (f) {
		case F_ONE: vx_h_u64(h, l->arg[0]); break;
		case F_TWO: { int w = -1; for (int k = 0; k < 5; k++) if ((const char *)l->arg[1] == words[k]) w = k;
			      vx_h_u64(h, l->arg[0]); vx_h_u64(h, (uint64_t)w); break; }
		case F_THREE: vx_h_u64(h, l->arg[0]); vx_h_u64(h, l->arg[1] & 0xffffffffu); vx_h_u64(h, l->arg[2] & 0xffffffffu); break;
		case F_NICE: vx_h_u64(h, l->arg[0]); vx_h_u64(h, l->arg[1]); break;
		default: break;
		}
	}
}
static void canon_model(vx_hasher *h)
{
	vx_h_u64(h, S.n); vx_h_u64(h, S.seq); vx_h_u64(h, S.fill_n); vx_h_u64(h, S.fill_base); vx_h_u64(h, S.nexp);
	for (unsigned i = 0; i < S.nexp; i++) vx_h_bytes(h, S.exp[i].text, TEXTMAX);
}

/* ------------------------------------------------------------------ oracle */

enum { CTX_START, CTX_BFS, CTX_LONG };
static int ctx_mode; static uint64_t ctx_P; static const char *ctx_after = "start";
static vx_bfs B;

static uint64_t n_lines_compared, n_null_expected, n_dumps, n_observations, max_n_seen;
static vx_set obs_set;
static vx_h128 last_obs;

static const char *region(void)
{
	return S.n == 0 ? "n=0" : S.n < RING ? "0<n<256" : S.n == RING ? "n=256" : S.n < FOLD ? "256<n<2^31-1" : "n>=2^31-1";
}

__attribute__((format(printf, 3, 4)))
static void fail(const char *clause, const char *detail, const char *fmt, ...)
{
	vx_sb sig = {0}, rep = {0}, hist = {0};
	va_list ap; va_start(ap, fmt); char *m = vx_vfmt(fmt, ap); va_end(ap);
	vx_sb_printf(&sig, "C20|%s|%s|%s|after:%s", clause, detail, region(), ctx_after);
	if (ctx_mode == CTX_BFS) { vx_sb_printf(&rep, "mode=bfs\n"); vx_bfs_history(&B, &hist, &rep); }
	else if (ctx_mode == CTX_START) { vx_sb_printf(&rep, "mode=bfs\nconfig=P%llu\nops=\n", (unsigned long long)ctx_P); vx_sb_printf(&hist, "%s", ""); }
	else { vx_sb_printf(&rep, "mode=longrun\ncount=%llu\n", (unsigned long long)S.n); vx_sb_printf(&hist, "%s", ""); }
	if (ctx_mode == CTX_LONG)
		vx_violation(sig.s, rep.s, "%s: %s -- after %llu real mlog calls on an empty log (long run)", clause, m, (unsigned long long)S.n);
	else
		vx_violation(sig.s, rep.s, "%s: %s -- start state: %llu messages logged (%s); then [%s]; messages since last clear n=%llu",
			     clause, m, (unsigned long long)ctx_P, ctx_P <= 1024 ? "all by real calls" : "counter placed 300 calls earlier, then 300 real calls",
			     hist.s ? hist.s : "", (unsigned long long)S.n);
	free(m); free(sig.s); free(rep.s); free(hist.s);
}

static const int extra_k[] = { INT_MIN, INT_MIN + 255, -65536, -257, -256, -255, 511, 512, 65536, INT_MAX - 255, INT_MAX };
#define NK (261 + (int)(sizeof(extra_k) / sizeof(extra_k[0])))
static int kval(int i) { return i < 261 ? i - 2 : extra_k[i - 261]; }

static char dumpbuf[1 << 16], expbuf[1 << 16];
static char *got[NK]; static volatile int cur_ki;

/* which recent message has this text? returns 1 and the offset to `want`, or 0 */
static int find_msg(const char *text, uint64_t want, long long *off)
{
	uint64_t lo = want > 600 ? want - 600 : 0, hi = S.n;
	for (uint64_t i = hi; i-- > lo; ) if (0 == strcmp(model_line(i), text)) { *off = (long long)i - (long long)want; return 1; }
	return 0;
}

/* compare everything the property names with the model; 1 = violation recorded */
static int observe(void)
{
	uint64_t vis = S.n < RING ? S.n : RING, base = S.n - vis;
	int bad = 0;
	char d[128];
	n_observations++;
	if (S.n > max_n_seen) max_n_seen = S.n;
	for (int i = 0; i < NK; i++) got[i] = NULL;
	if (VX_TRY) {
		for (int i = 0; i < NK; i++) { cur_ki = i; got[i] = mlog_get_line(kval(i)); }
		VX_END;
	} else {
		VX_END;
		snprintf(d, sizeof(d), "%s", vx_fault_kind == VX_FAULT_ASSERT ? "assert" : vx_fault_kind == VX_FAULT_HANG ? "hang" : "signal");
		fail("get_line-fault", d, "mlog_get_line(%d): %s", kval(cur_ki), vx_fault_msg);
		return 1;	/* (strings obtained so far are leaked - the state is not expanded) */
	}
	vx_hasher h; vx_h_init(&h);
	for (int i = 0; i < NK && !bad; i++) {
		int k = kval(i);
		const char *want = (k >= 0 && (uint64_t)k < vis) ? model_line(base + (uint64_t)k) : NULL;
		if (want) n_lines_compared++; else n_null_expected++;
		if (got[i]) vx_h_bytes(&h, got[i], strlen(got[i]) + 1); else vx_h_u64(&h, 0xdeadULL);
		if (!want && got[i]) {
			fail("get_line-not-null", k < 0 ? "negative k" : "k>=min(n,256)", "mlog_get_line(%d) returned \"%s\", must be NULL (%llu lines visible)",
			     k, got[i], (unsigned long long)vis);
			bad = 1;
		} else if (want && !got[i]) {
			fail("get_line-null", "line missing", "mlog_get_line(%d) returned NULL, must be \"%s\" (%llu lines visible)", k, want, (unsigned long long)vis);
			bad = 1;
		} else if (want && strcmp(want, got[i])) {
			long long off;
			if (find_msg(got[i], base + (uint64_t)k, &off)) snprintf(d, sizeof(d), "is the message %+lld places from the right one", off);
			else snprintf(d, sizeof(d), "is not a recent message");
			fail("get_line-text", d, "mlog_get_line(%d) returned \"%s\", must be \"%s\" (message number %llu since the clear)",
			     k, got[i], want, (unsigned long long)(base + (uint64_t)k));
			bad = 1;
		}
	}
	for (int i = 0; i < NK; i++) free(got[i]);
	if (bad) return 1;
	/* mlog_dump */
	size_t el = 0;
	for (uint64_t i = 0; i < vis; i++) { const char *t = model_line(base + i); size_t l = strlen(t); memcpy(expbuf + el, t, l); el += l; }
	expbuf[el] = 0;
	FILE *f = fmemopen(dumpbuf, sizeof(dumpbuf) - 1, "w");
	if (!f) { perror("fmemopen"); _exit(3); }
	long dl = -1;
	if (VX_TRY) { mlog_dump(f); VX_END; }
	else {
		VX_END; fclose(f);
		snprintf(d, sizeof(d), "%s", vx_fault_kind == VX_FAULT_ASSERT ? "assert" : vx_fault_kind == VX_FAULT_HANG ? "hang" : "signal");
		fail("dump-fault", d, "mlog_dump: %s", vx_fault_msg);
		return 1;
	}
	fflush(f); dl = ftell(f); fclose(f);
	if (dl < 0) dl = 0;
	dumpbuf[dl] = 0;
	n_dumps++;
	vx_h_bytes(&h, dumpbuf, (size_t)dl);
	if ((size_t)dl != el || memcmp(dumpbuf, expbuf, el)) {
		size_t p = 0; while (p < el && p < (size_t)dl && dumpbuf[p] == expbuf[p]) p++;
		fail("dump", (size_t)dl < el ? "too short" : (size_t)dl > el ? "too long" : "different text",
		     "mlog_dump wrote %ld bytes, the %llu visible lines are %zu bytes; first difference at byte %zu", dl, (unsigned long long)vis, el, p);
		return 1;
	}
	last_obs = vx_h_done(&h);
	vx_set_add(&obs_set, last_obs);
	return 0;
}

/* --------------------------------------------------------------- operations */

enum { OP_MLOG0, OP_MLOG1, OP_MLOG2, OP_MLOG3, OP_NICE, OP_CLEAR, NOPS };
static const char *opname[NOPS] = { "mlog0", "mlog1", "mlog2", "mlog3", "mlog_nice", "mlog_clear" };
static uint64_t op_count[NOPS], nice_recorded, nice_dropped, folds_seen, leaf_states;
static int max_depth;
static vx_set state_set;

static int op_enabled(int op) { (void)op; return 1; }
static void op_describe(int op, vx_sb *sb) { vx_sb_printf(sb, "%s", opname[op]); }
static void canon_full(vx_hasher *h) { canon_impl(h); canon_model(h); }
static void op_canon(vx_hasher *h)
{
	/* states at the depth bound are never expanded: store one representative only (they are still counted,
	 * distinctly, in state_set by op_apply) */
	if (max_depth && (int)S.depth >= max_depth) { vx_h_u64(h, 0x1eafULL); return; }
	memcpy(&log, &S.lg, sizeof(log));
	canon_full(h);
}

static int op_apply(int op)
{
	msg_t m;
	op_count[op]++;
	ctx_mode = CTX_BFS; ctx_after = op <= OP_MLOG3 ? "mlog" : opname[op];	/* mlog0..3 differ only in their arguments */
	memcpy(&log, &S.lg, sizeof(log));
	unsigned head0 = log.head;
	if (op <= OP_MLOG3) make_msg(op, S.seq, &m);
	else if (op == OP_NICE) make_msg(K_NICE, S.seq, &m);
	if (VX_TRY) {
		if (op == OP_CLEAR) mlog_clear(); else issue(&m, op == OP_NICE);
		VX_END;
	} else {
		VX_END;
		fail("op-fault", opname[op], "%s", vx_fault_msg);
		return 1;
	}
	/* model */
	if (op == OP_CLEAR) { S.n = 0; S.fill_n = 0; S.fill_base = 0; S.nexp = 0; memset(S.exp, 0, sizeof(S.exp)); }
	else if (op == OP_NICE) {
		if (S.n < RING) { model_append(&m); nice_recorded++; } else nice_dropped++;
		S.seq++;
	} else { model_append(&m); S.seq++; }
	S.depth++;
	if (op != OP_CLEAR && log.head < head0) folds_seen++;
	memcpy(&S.lg, &log, sizeof(log));
	int bad = observe();
	if (!bad) {
		vx_hasher h; vx_h_init(&h); canon_full(&h);
		if (vx_set_add(&state_set, vx_h_done(&h)) && max_depth && (int)S.depth >= max_depth) leaf_states++;
	}
	return bad;
}

/* -------------------------------------------------------------- start states */

#define NSMALL 12
static const uint64_t small_starts[NSMALL] = { 0, 1, 254, 255, 256, 257, 258, 510, 511, 512, 513, 514 };
#define NFOLD 600
/* every binary width the counter could be cut to: 2^b-1, 2^b, 2^b+1, 2^b+255, 2^b+256 for b = 9..30 */
#define NPOW (22 * 5)
#define NSTART (NSMALL + NFOLD + NPOW)
static uint64_t start_P(int i)
{
	if (i < NSMALL) return small_starts[i];
	if (i >= NSMALL + NFOLD) {
		static const int offs[5] = { -1, 0, 1, 255, 256 };
		int j = i - NSMALL - NFOLD;
		return (1ULL << (9 + j / 5)) + (uint64_t)(int64_t)offs[j % 5];
	}
	int j = i - NSMALL;		/* 0,-1,1,-2,2,... : nearest to the fold first */
	int off = (j & 1) ? -((j + 1) / 2) : j / 2;
	return FOLD + (uint64_t)(int64_t)off;	/* off in -300..299 */
}

static uint64_t bulk_calls;
/* issue messages gen(from..to-1) through the real mlog; 1 on fault */
static int bulk(uint64_t from, uint64_t to)
{
	msg_t m;
	while (from < to) {
		uint64_t stop = to - from > (1u << 22) ? from + (1u << 22) : to;
		if (VX_TRY) {
			for (; from < stop; from++) { gen(from, &m); issue(&m, 0); }
			VX_END;
		} else {
			VX_END;
			S.n = S.fill_n = from;
			fail("op-fault", "mlog", "fault in mlog while filling: %s", vx_fault_msg);
			return 1;
		}
	}
	return 0;
}

/* build start state P in `log` and in the model; returns 1 on a fault */
static int build_start(uint64_t P)
{
	memset(&log, 0, sizeof(log));
	memset(&S, 0, sizeof(S));
	uint64_t first = 0;
	if (P > 1024) { first = P - 300; log.head = (unsigned)first; }	/* first < 2^31-1: the counter has not folded yet */
	int r = bulk(first, P);
	bulk_calls += P - first;
	S.n = S.fill_n = S.seq = P; S.fill_base = 0;
	memcpy(&S.lg, &log, sizeof(log));
	return r;
}

static void bfs_init(uint64_t P, int depth)
{
	static char name[32];
	snprintf(name, sizeof(name), "P%llu", (unsigned long long)P);
	memset(&B, 0, sizeof(B));
	B.live = &S; B.size = sizeof(S); B.nops = NOPS; B.enabled = op_enabled; B.apply = op_apply;
	B.canon = op_canon; B.describe = op_describe; B.name = name; B.max_depth = depth;
	max_depth = depth;
}

static int depth_for(uint64_t P)
{
	const char *e = getenv("C20_DEPTH");
	(void)P;
	if (e && atoi(e) > 0) return atoi(e);
	return vx_thorough() ? 6 : 4;
}

static void run_start(int idx)
{
	uint64_t P = start_P(idx);
	ctx_mode = CTX_START; ctx_P = P; ctx_after = "start";
	if (build_start(P)) return;
	if (observe()) return;
	vx_hasher h; vx_h_init(&h); canon_full(&h); vx_set_add(&state_set, vx_h_done(&h));
	bfs_init(P, depth_for(P));
	vx_bfs_run(&B);
	vx_count("transitions", B.transitions); vx_count("traces", B.transitions);
	vx_and("exhaustive", !B.capped);
	vx_max("max_depth", (uint64_t)B.depth_done);
	vx_count("start_states", 1);
	if (P > 1024) vx_count("start_states_positioned", 1); else vx_count("start_states_by_real_calls_only", 1);
	if (B.capped) vx_note("search from P=%llu stopped early (deadline or violation cap) at depth %d", (unsigned long long)P, B.depth_done);
	if (idx < 2 || idx == NSMALL || idx == NSMALL + 1) {
		vx_sb hs = {0};
		static uint32_t ops[16]; int n = vx_store_trace(&B.st, B.st.n - 1, ops, 16);
		for (int i = 0; i < n; i++) { if (i) vx_sb_printf(&hs, "; "); op_describe((int)ops[i], &hs); }
		vx_sample("start P=%llu (%s): %llu transitions to depth %d; a deepest history: %s", (unsigned long long)P,
			  P > 1024 ? "head placed at P-300 + 300 real calls" : "P real calls", (unsigned long long)B.transitions, B.depth_done, hs.s ? hs.s : "");
		free(hs.s);
	}
	vx_bfs_free(&B);
}

/* ------------------------------------------------------------------ long run */

#define LONG_TOTAL (0x80000000ULL + 600)

static int in_positioned_set(uint64_t c) { return c + 300 >= FOLD && c <= FOLD + 299; }
static int want_obs(uint64_t c) { return c <= 600 || c + 900 >= FOLD || (c & ((1u << 26) - 1)) == 0; }

static void long_run(uint64_t total)
{
	uint64_t c = 0, conf_points = 0, conf_fail = 0, head_checks = 0;
	memset(&log, 0, sizeof(log)); memset(&S, 0, sizeof(S));
	ctx_mode = CTX_LONG; ctx_after = "mlog";
	if (observe()) return;
	while (c < total) {
		uint64_t next = c + 1;
		if (!want_obs(next)) {
			next = (c | ((1u << 22) - 1)) + 1;		/* next multiple of 2^22 */
			if (next + 900 > FOLD && c + 900 < FOLD) next = FOLD - 900;
			if (next > total) next = total;
		}
		if (bulk(c, next)) return;
		c = next; S.n = S.fill_n = S.seq = c;
		if (c < FOLD) {
			/* premise of the positioning shortcut: before the fold the counter equals the number of calls */
			head_checks++;
			if (log.head != c) { vx_note("shortcut premise broken: after %llu calls log.head=%u", (unsigned long long)c, log.head); vx_and("shortcut_conforms", 0); vx_and("exhaustive", 0); }
		}
		if (want_obs(c) || c == total) {
			ctx_mode = CTX_LONG; ctx_after = "mlog";
			if (observe()) return;
			vx_count("transitions", 1); vx_count("traces", 1);
		}
		if (in_positioned_set(c)) {
			static struct mlog keep; static struct live keepS;
			vx_hasher h; vx_h_init(&h); canon_impl(&h); vx_h128 real_state = vx_h_done(&h), real_obs = last_obs;
			memcpy(&keep, &log, sizeof(log)); keepS = S;
			ctx_mode = CTX_START; ctx_P = c; ctx_after = "start";
			int r = build_start(c) || observe();
			vx_h_init(&h); canon_impl(&h); vx_h128 pos_state = vx_h_done(&h);
			conf_points++;
			if (r || pos_state.a != real_state.a || pos_state.b != real_state.b || last_obs.a != real_obs.a || last_obs.b != real_obs.b) {
				conf_fail++;
				vx_note("positioned start P=%llu differs from the state after %llu real calls (head %u vs %u)",
					(unsigned long long)c, (unsigned long long)c, log.head, keep.head);
			}
			memcpy(&log, &keep, sizeof(log)); S = keepS;
		}
		if (vx_deadline_passed() && c < total) {
			vx_and("exhaustive", 0);
			vx_note("long run cut by the deadline after %llu calls", (unsigned long long)c);
			break;
		}
	}
	vx_count("long_run_calls", c);
	vx_count("long_run_head_equals_count_checks", head_checks);
	vx_count("shortcut_conformance_points", conf_points);
	vx_count("shortcut_conformance_failures", conf_fail);
	vx_and("shortcut_conforms", conf_fail == 0);
	if (conf_fail) vx_and("exhaustive", 0);
	vx_sample("long run: %llu real mlog calls from an empty log, compared with the model after every call for counts <= 600 and "
		  ">= 2^31-901 and every 2^26 calls; %llu positioned start states compared with the real state (failures: %llu); final log.head=%u",
		  (unsigned long long)c, (unsigned long long)conf_points, (unsigned long long)conf_fail, log.head);
}

/* ---------------------------------------------------------------------- main */

int main(int argc, char **argv)
{
	vx_init(argc, argv);
	vx_install_handlers();
	vx_watchdog(2.0);
	vx_set_init(&obs_set, 16); vx_set_init(&state_set, 16);
	char *rp = vx_read_replay();
	if (rp) {
		const char *mode = vx_replay_field(rp, "mode");
		if (mode && !strcmp(mode, "longrun")) {
			long_run(strtoull(vx_replay_field(rp, "count"), NULL, 10));
		} else {
			const char *cn = vx_replay_field(rp, "config");
			uint64_t P = cn && cn[0] == 'P' ? strtoull(cn + 1, NULL, 10) : 0;
			ctx_mode = CTX_START; ctx_P = P; ctx_after = "start";
			if (!build_start(P) && !observe()) {
				bfs_init(P, 0);
				vx_bfs_replay(&B, rp);
			}
		}
		vx_finish();
		return 0;
	}
	int only_long = getenv("C20_ONLY_LONG") != NULL;	/* debugging aid: skip the search, do the long run only */
	for (int i = 0; i < NSTART && !only_long; i++) {
		if (!vx_mine((uint64_t)i)) continue;
		if (vx_deadline_passed()) { vx_and("exhaustive", 0); vx_note("start states skipped: deadline"); break; }
		if (vx_too_many_violations()) { vx_and("exhaustive", 0); break; }
		run_start(i);
	}
	if (vx_thorough() && vx_mine(NSTART)) long_run(LONG_TOTAL);
	vx_count("states", state_set.n);
	vx_count("distinct", obs_set.n);
	vx_count("distinct_observation_tuples", obs_set.n);
	vx_count("states_at_depth_bound", leaf_states);
	vx_count("observations", n_observations);
	vx_count("get_line_text_compared", n_lines_compared);
	vx_count("get_line_null_expected", n_null_expected);
	vx_count("dumps_compared", n_dumps);
	vx_count("bulk_real_mlog_calls_building_starts", bulk_calls);
	vx_count("nice_recorded", nice_recorded); vx_count("nice_dropped_log_full", nice_dropped);
	vx_count("counter_folds_executed_in_search", folds_seen);
	vx_count("scope_guard_disabled_ops", 0);
	vx_max("max_messages_since_clear", max_n_seen);
	for (int k = 0; k < NOPS; k++) { char nm[64]; snprintf(nm, sizeof(nm), "op_%s", opname[k]); vx_count(nm, op_count[k]); }
	vx_finish();
	return 0;
}

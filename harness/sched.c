/*
 * C01 / C02 / C03 (history part) - the fibre scheduler against a boring model.
 *
 * Compile with -DPROP=1|2|3. The same harness serves the three properties with
 * different alphabets; every run evaluates every clause but reports only the
 * clauses its property owns (others are counted as foreign divergences).
 *
 * Explicit-state BFS: state = the real scheduler (file-scope `kernel`, the
 * atomic run queue storage and the fibres, reached by #including fibre.c) +
 * the model. One transition = one external API call; a fibre_scheduler_next
 * transition also carries the *script* the dispatched fibre body will execute
 * (up to two API calls from inside the fibre, then one of the four return
 * codes), so fibre programs are part of the enumeration.
 *
 * Model time is an unbounded 64-bit virtual clock; the implementation sees
 * (uint32_t)(base + virtual). Agreement with the model for every base is the
 * "behaviour is identical across 32-bit wrap" oracle.
 */
#include "vx.h"

/* the library is linked as objects of its own (lib= in bin/checks.d/C01.py): list.c, messageq.c, util.c and
 * harness/sched_shim.c, which is fibre.c plus accessors to its private state */
#include <librfn/atomic.h>
#include <librfn/util.h>
#include <librfn/list.h>
#include <librfn/messageq.h>
#include <librfn/fibre.h>
#include <librfn/protothreads.h>
list_t *sc_shim_runq(void); list_t *sc_shim_timerq(void); fibre_t *sc_shim_current(void); int sc_shim_state(void); uint32_t sc_shim_now(void);
messageq_t *sc_shim_atomic_runq(void); fibre_t **sc_shim_aqbuf(void); unsigned sc_shim_aqlen(void);

uint32_t time_now(void) { return 0; }	/* util.c's ratelimit helper wants it; never called here */

#ifndef PROP
#error "compile with -DPROP=1, 2 or 3"
#endif
#define OWN_C01 1
#define OWN_C02 2
#define OWN_C03 4
#define MY_OWN (1 << (PROP - 1))

#define MAXF 6
#define MAXAQ 16

/* ---------------------------------------------------------------- the model */

typedef struct {
	int8_t runq[MAXF], nrun;
	int8_t tq[MAXF], ntq;
	int64_t due[MAXF];
	int8_t aq[MAXAQ], naq;
	int8_t cur, last_ret;
	uint8_t pc[MAXF];		/* 0: next dispatch starts at the beginning */
	int64_t now;
	uint8_t timers_used;		/* some fibre_timeout returned false in this history */
} model_t;

static model_t Mo;
static int NF;
static uint32_t base;			/* implementation time = base + model time */

static int m_in(const int8_t *q, int n, int f) { for (int i = 0; i < n; i++) if (q[i] == f) return 1; return 0; }
static void m_del(int8_t *q, int8_t *n, int f)
{
	for (int i = 0; i < *n; i++) if (q[i] == f) { for (int j = i; j < *n - 1; j++) q[j] = q[j + 1]; (*n)--; q[*n] = 0; return; }
}
static void m_run1(int f)
{
	if (m_in(Mo.runq, Mo.nrun, f)) return;
	m_del(Mo.tq, &Mo.ntq, f);
	Mo.runq[Mo.nrun++] = (int8_t)f;
}
static void m_drain(void) { for (int i = 0; i < Mo.naq; i++) { m_run1(Mo.aq[i]); Mo.aq[i] = 0; } Mo.naq = 0; }
static void m_run(int f) { m_drain(); m_run1(f); }
static int m_kill(int f)
{
	m_drain();
	int r = m_in(Mo.runq, Mo.nrun, f) || m_in(Mo.tq, Mo.ntq, f);
	m_del(Mo.runq, &Mo.nrun, f); m_del(Mo.tq, &Mo.ntq, f);
	return r;
}
static int m_timeout(int f, int64_t d)
{
	if (d <= Mo.now) return 1;
	Mo.timers_used = 1;
	Mo.due[f] = d;
	if (!m_in(Mo.runq, Mo.nrun, f)) {
		if (m_in(Mo.tq, Mo.ntq, f)) { fprintf(stderr, "sched harness: generator let a fibre register two timeouts\n"); _exit(6); }
		int pos = 0;
		while (pos < Mo.ntq && Mo.due[Mo.tq[pos]] <= d) pos++;	/* after equal due times: registration order */
		for (int j = Mo.ntq; j > pos; j--) Mo.tq[j] = Mo.tq[j - 1];
		Mo.tq[pos] = (int8_t)f; Mo.ntq++;
	}
	return 0;
}

/* ------------------------------------------------------- scripts and actions */

enum { A_NONE, A_RUN, A_KILL, A_RUNA, A_TMO, A_BURST /* arg = k: k fibre_run_atomic calls in a row, fibres in turn */ };
typedef struct { uint8_t kind; int8_t arg; } act_t;
static act_t acts[40]; static int NA;
static int32_t deltas[8]; static int ND;
static uint32_t dts[8]; static int NDT;
static int aq_limit = 3;		/* run_atomic offered only while fewer requests are pending (scope: <= 8 undrained) */
static int allow2 = 1;			/* scripts with two actions */

/* op codes: [0,NF) run  [NF,2NF) run_atomic  [2NF,3NF) kill  then next(dt, a1, a2, ret) */
static int nops_total;
#define OP_NEXT0 (3 * NF)
static void decode_next(int op, int *dti, int *a1, int *a2, int *ret)
{
	int x = op - OP_NEXT0;
	*ret = x % 4; x /= 4; *a2 = x % NA; x /= NA; *a1 = x % NA; x /= NA; *dti = x;
}
static int encode_next(int dti, int a1, int a2, int ret) { return OP_NEXT0 + ((dti * NA + a1) * NA + a2) * 4 + ret; }

static fibre_t fibres[MAXF];
static uint32_t cur_t32;		/* time handed to the pass in progress */
static int sc_a1, sc_a2, sc_ret;	/* script for the fibre dispatched by the pass in progress */
static struct { int n, who, entered, self_ok, nres, res[2]; } dl;	/* dispatch log of the pass in progress */

static int fidx(const fibre_t *f)
{
	if (!f) return -1;
	for (int i = 0; i < MAXF; i++) if (f == &fibres[i]) return i;
	return -2;
}
static int nidx(const list_node_t *n) { return n ? fidx(containerof(n, fibre_t, link)) : -1; }

static int do_action_impl(int a)
{
	act_t ac = acts[a];
	switch (ac.kind) {
	case A_RUN: fibre_run(&fibres[ac.arg]); return 0;
	case A_KILL: return fibre_kill(&fibres[ac.arg]);
	case A_RUNA: return fibre_run_atomic(&fibres[ac.arg]);
	case A_BURST: { int r = 0; for (int i = 0; i < ac.arg; i++) if (fibre_run_atomic(&fibres[i % NF])) r |= 1 << i; return r; }
	case A_TMO: return fibre_timeout(cur_t32 + (uint32_t)deltas[ac.arg]);
	}
	return 0;
}

/* the fibre body: a real protothread whose per-dispatch behaviour is scripted */
static int body(fibre_t *f)
{
	int entered = 0;
	PT_BEGIN_FIBRE(f);
	entered = 1;		/* first statement: executes only when the fibre (re)starts from its beginning */
	for (;;) {
		dl.n++; dl.who = fidx(f); dl.entered = entered; dl.self_ok = (fibre_self() == f);
		entered = 0;
		dl.nres = 0;
		if (sc_a1) dl.res[dl.nres++] = do_action_impl(sc_a1);
		if (sc_a2) dl.res[dl.nres++] = do_action_impl(sc_a2);
		if (sc_ret == PT_YIELDED) PT_YIELD();
		else if (sc_ret == PT_WAITING) PT_WAIT();
		else if (sc_ret == PT_EXITED) PT_EXIT();
		else PT_FAIL();
	}
	PT_END();
}

/* ------------------------------------------------------------- reporting */

static uint64_t foreign_divergences;
static int in_probe, in_setup;
static const char *cfgname = "";
static uint64_t n_ops_kind[8];

/* returns 1 if the branch must end (implementation and model have diverged) */
__attribute__((format(printf, 4, 5)))
static int diverge(int owners, int stop, const char *clause, const char *fmt, ...)
{
	va_list ap; va_start(ap, fmt); char *m = vx_vfmt(fmt, ap); va_end(ap);
	if ((owners & MY_OWN) && in_setup) {
		/* the start state of this configuration could not even be built */
		char sig[160], rpl[160];
		snprintf(sig, sizeof(sig), "%s+setup|%s|", clause, cfgname);
		snprintf(rpl, sizeof(rpl), "config=%s\nops=\n", cfgname);
		vx_violation(sig, rpl, "%s: %s -- while building the start state of %s (run_atomic + pass cycles, then pre-fill)", clause, m, cfgname);
	} else if (owners & MY_OWN) {
		char cl[96]; snprintf(cl, sizeof(cl), "%s%s", clause, in_probe ? "+probe" : "");
		vx_bfs_fail(cl, "%s", m);
	} else {
		foreign_divergences++;
		vx_note("foreign divergence (clause %s, owned by another property's check): %s", clause, m);
	}
	free(m);
	return stop || (owners & MY_OWN);
}
static int dispatch_owner(void) { return OWN_C01 | (Mo.timers_used ? OWN_C02 : 0); }

/* ---------------------------------------------------------------- operations */

static int op_enabled(int op)
{
	if (op < NF) return 1;
	if (op < 2 * NF) return Mo.naq < aq_limit;
	if (op < 3 * NF) return 1;
	int dti, a1, a2, ret; decode_next(op, &dti, &a1, &a2, &ret);
	if (dti >= NDT) return 0;
	if (a1 == 0 && a2 != 0) return 0;		/* canonical: "none" only at the end */
	if (!allow2 && a2 != 0) return 0;
	/* will this pass dispatch anything? (model prediction) - if not, the script is irrelevant */
	int willrun = Mo.naq > 0 || Mo.nrun > 0 || (Mo.cur >= 0 && Mo.last_ret == PT_YIELDED) ||
		      (Mo.ntq > 0 && Mo.due[Mo.tq[0]] <= Mo.now + (int64_t)dts[dti]);
	if (!willrun) return a1 == 0 && a2 == 0 && ret == PT_WAITING;
	/* scope: at most one unsatisfied fibre_timeout per dispatch */
	if (acts[a1].kind == A_TMO && acts[a2].kind == A_TMO && deltas[acts[a1].arg] > 0 && deltas[acts[a2].arg] > 0) { return 0; }
	/* scope: at most 8 undrained run_atomic requests (we stay at or below aq_limit) */
	int na = (acts[a1].kind == A_RUNA) + (acts[a2].kind == A_RUNA) + (acts[a1].kind == A_BURST ? acts[a1].arg : 0) + (acts[a2].kind == A_BURST ? acts[a2].arg : 0);
	if (na && na > aq_limit) return 0;	/* requests made inside a dispatch start from a drained queue */
	return 1;
}
static void describe_action(int a, vx_sb *sb)
{
	act_t ac = acts[a];
	switch (ac.kind) {
	case A_RUN: vx_sb_printf(sb, "run(f%d)", ac.arg); break;
	case A_KILL: vx_sb_printf(sb, "kill(f%d)", ac.arg); break;
	case A_RUNA: vx_sb_printf(sb, "run_atomic(f%d)", ac.arg); break;
	case A_BURST: vx_sb_printf(sb, "run_atomic x%d", ac.arg); break;
	case A_TMO: vx_sb_printf(sb, "timeout(now%+d)", deltas[ac.arg]); break;
	}
}
static const char *retname[] = { "yield", "wait", "exit", "fail" };
static void op_describe(int op, vx_sb *sb)
{
	if (op < NF) vx_sb_printf(sb, "run(f%d)", op);
	else if (op < 2 * NF) vx_sb_printf(sb, "run_atomic(f%d)", op - NF);
	else if (op < 3 * NF) vx_sb_printf(sb, "kill(f%d)", op - 2 * NF);
	else {
		int dti, a1, a2, ret; decode_next(op, &dti, &a1, &a2, &ret);
		vx_sb_printf(sb, "next(+%u){", dts[dti]);
		if (a1) { describe_action(a1, sb); vx_sb_printf(sb, ","); }
		if (a2) { describe_action(a2, sb); vx_sb_printf(sb, ","); }
		vx_sb_printf(sb, "%s}", retname[ret]);
	}
}

/* model side of one script action, fed with the implementation's answer */
static int model_action(int a, int implres, int f)
{
	act_t ac = acts[a]; int exp;
	switch (ac.kind) {
	case A_RUN: m_run(ac.arg); break;
	case A_KILL:
		exp = m_kill(ac.arg);
		if (exp != implres) return diverge(dispatch_owner(), 1, "kill-result", "fibre_kill(f%d) called by f%d returned %d, model says %d", ac.arg, f, implres, exp);
		break;
	case A_RUNA:
		if (implres) { if (Mo.naq < MAXAQ) Mo.aq[Mo.naq++] = ac.arg; }
		else if (Mo.naq < 8) return diverge(OWN_C01, 1, "atomic-refused", "fibre_run_atomic(f%d) refused with only %d undrained requests", ac.arg, Mo.naq);
		break;
	case A_BURST:
		for (int i = 0; i < ac.arg; i++) {
			if (implres & (1 << i)) { if (Mo.naq < MAXAQ) Mo.aq[Mo.naq++] = (int8_t)(i % NF); }
			else if (Mo.naq < 8) return diverge(OWN_C01, 1, "atomic-refused", "fibre_run_atomic(f%d), call %d of a burst, refused with only %d undrained requests", i % NF, i + 1, Mo.naq);
		}
		break;
	case A_TMO:
		exp = m_timeout(f, Mo.now + deltas[ac.arg]);
		if (exp != implres) return diverge(OWN_C02, 1, "timeout-result", "fibre_timeout(now%+d) returned %d, expected %d", deltas[ac.arg], implres, exp);
		break;
	}
	return 0;
}

static int do_next(int dti, int a1, int a2, int ret)
{
	uint32_t w = 0;
	Mo.now += dts[dti];
	cur_t32 = base + (uint32_t)Mo.now;
	sc_a1 = a1; sc_a2 = a2; sc_ret = ret;
	memset(&dl, 0, sizeof(dl)); dl.who = -1;
	if (VX_TRY) { w = fibre_scheduler_next(cur_t32); VX_END; }
	else { VX_END; return diverge(OWN_C01 | OWN_C02 | OWN_C03, 1, "fault", "%s during fibre_scheduler_next", vx_fault_msg); }
	fibre_t *self_after = fibre_self();

	/* model pass */
	m_drain();
	if (Mo.cur >= 0 && Mo.last_ret == PT_YIELDED) m_run1(Mo.cur);
	while (Mo.ntq && Mo.due[Mo.tq[0]] <= Mo.now) { int f = Mo.tq[0]; m_del(Mo.tq, &Mo.ntq, f); Mo.runq[Mo.nrun++] = (int8_t)f; }
	if (Mo.nrun) { Mo.cur = Mo.runq[0]; m_del(Mo.runq, &Mo.nrun, Mo.cur); } else Mo.cur = -1;

	if (dl.n > 1) return diverge(OWN_C01, 1, "multi-dispatch", "one fibre_scheduler_next call ran %d fibre bodies", dl.n);
	if (dl.who != Mo.cur)
		return diverge(dispatch_owner(), 1, "dispatch", "pass dispatched %s%d, model expects %s%d", dl.who < 0 ? "nothing " : "f", dl.who, Mo.cur < 0 ? "nothing " : "f", Mo.cur);
	if (fidx(self_after) != Mo.cur)
		return diverge(OWN_C01, 1, "self", "fibre_self() after the pass names %d, expected %d", fidx(self_after), Mo.cur);
	if (Mo.cur >= 0) {
		int f = Mo.cur;
		if (!dl.self_ok) return diverge(OWN_C01, 1, "self", "fibre_self() inside f%d does not name it", f);
		if (dl.entered != (Mo.pc[f] == 0))
			return diverge(OWN_C01, 1, "restart", "f%d %s its first statement, model expected %s", f, dl.entered ? "entered at" : "resumed past",
				       Mo.pc[f] == 0 ? "a start from the beginning" : "a resumption");
		Mo.pc[f] = 1;
		int k = 0;
		if (a1 && model_action(a1, dl.res[k++], f)) return 1;
		if (a2 && model_action(a2, dl.res[k++], f)) return 1;
		Mo.last_ret = (int8_t)ret;
		if (ret == PT_EXITED || ret == PT_FAILED) Mo.pc[f] = 0;
	}
	/* C03: the wake-up time */
	int64_t expw;
	const char *why;
	if ((Mo.cur >= 0 && Mo.last_ret == PT_YIELDED) || Mo.nrun || Mo.naq) { expw = Mo.now; why = "a fibre is runnable"; }
	else if (Mo.ntq) { expw = Mo.due[Mo.tq[0]]; why = "earliest pending due time"; }
	else { expw = Mo.now + 0x7fffffff; why = "nothing pending"; }
	if (w != base + (uint32_t)expw)
		if (diverge(OWN_C03, 0, "wakeup", "fibre_scheduler_next returned now%+lld, expected now%+lld (%s)",
			    (long long)(int32_t)(w - cur_t32), (long long)(expw - Mo.now), why)) return 1;
	return 0;
}

static int op_apply(int op)
{
	int r;
	if (op < NF) {
		n_ops_kind[0]++;
		if (VX_TRY) { fibre_run(&fibres[op]); VX_END; } else { VX_END; return diverge(7, 1, "fault", "%s during fibre_run", vx_fault_msg); }
		m_run(op);
		return 0;
	}
	if (op < 2 * NF) {
		n_ops_kind[1]++;
		bool b;
		if (VX_TRY) { b = fibre_run_atomic(&fibres[op - NF]); VX_END; } else { VX_END; return diverge(7, 1, "fault", "%s during fibre_run_atomic", vx_fault_msg); }
		if (b) { if (Mo.naq < MAXAQ) Mo.aq[Mo.naq++] = (int8_t)(op - NF); }
		else if (Mo.naq < 8) return diverge(OWN_C01, 1, "atomic-refused", "fibre_run_atomic(f%d) refused with only %d undrained requests", op - NF, Mo.naq);
		return 0;
	}
	if (op < 3 * NF) {
		n_ops_kind[2]++;
		bool b;
		if (VX_TRY) { b = fibre_kill(&fibres[op - 2 * NF]); VX_END; } else { VX_END; return diverge(7, 1, "fault", "%s during fibre_kill", vx_fault_msg); }
		int exp = m_kill(op - 2 * NF);
		if (b != exp) return diverge(dispatch_owner(), 1, "kill-result", "fibre_kill(f%d) returned %d, model says %d", op - 2 * NF, b, exp);
		return 0;
	}
	int dti, a1, a2, ret; decode_next(op, &dti, &a1, &a2, &ret);
	n_ops_kind[3]++; if (a1) n_ops_kind[4]++; if (a2) n_ops_kind[5]++;
	r = do_next(dti, a1, a2, ret);
	return r;
}

/* Frontier probe: states at the depth bound are not expanded, so what the last
 * operation did to the queues would go unobserved. Drain the scheduler with
 * fibres that just wait, first without advancing time, then past every due
 * time, comparing each pass with the model. */
static uint32_t probe_dt_all;
static int probe_depth;
static void probe(int depth)
{
	if (depth != probe_depth) return;
	in_probe = 1;
	int wait_script_ret = PT_WAITING;
	for (int i = 0; i < NF + MAXAQ + 2; i++) {
		int busy = Mo.naq || Mo.nrun || (Mo.cur >= 0 && Mo.last_ret == PT_YIELDED);
		if (do_next(0, 0, 0, wait_script_ret)) goto out;
		if (!busy) break;
	}
	/* jump past all timers (dts[NDT] is an extra, probe-only step) */
	if (Mo.ntq) {
		dts[NDT] = probe_dt_all;
		if (do_next(NDT, 0, 0, wait_script_ret)) goto out;
		for (int i = 0; i < NF + 1; i++) {
			int busy = Mo.nrun > 0;
			if (do_next(0, 0, 0, wait_script_ret)) goto out;
			if (!busy) break;
		}
	}
out:
	in_probe = 0;
}

/* ------------------------------------------------------- state save / restore */

/* the scheduler's own state is part of the library image that vx_bfs_run saves and restores with every state */
typedef struct {
	fibre_t f[MAXF];
	model_t m;
} snap_t;
static void st_save(void *dst)
{
	snap_t *s = dst;
	memcpy(s->f, fibres, sizeof(s->f)); s->m = Mo;
}
static void st_load(const void *src)
{
	const snap_t *s = src;
	memcpy(fibres, s->f, sizeof(s->f)); Mo = s->m;
}

static void canon_list(vx_hasher *h, list_t *l, int timed)
{
	int i = 0;
	for (list_node_t *n = l->head; n && i <= MAXF; n = n->next, i++) {
		vx_h_u64(h, (uint64_t)(nidx(n) + 8));
		if (timed) vx_h_u64(h, (uint64_t)(int64_t)(int32_t)(containerof(n, fibre_t, link)->duetime - sc_shim_now()));
	}
	vx_h_u64(h, 0xee);
	vx_h_u64(h, (uint64_t)(nidx(l->tail) + 8));	/* stale when the list is empty - kept, it is implementation state */
}
static void op_canon(vx_hasher *h)
{
	canon_list(h, sc_shim_runq(), 0);
	canon_list(h, sc_shim_timerq(), 1);
	vx_h_u64(h, (uint64_t)(fidx(sc_shim_current()) + 8)); vx_h_u64(h, (uint64_t)sc_shim_state());
	messageq_t *q = sc_shim_atomic_runq();
	unsigned ff = atomic_load(&q->full_flags);
	vx_h_u64(h, atomic_load(&q->num_free)); vx_h_u64(h, atomic_load(&q->sendp)); vx_h_u64(h, q->receivep); vx_h_u64(h, ff);
	for (unsigned i = 0; i < sc_shim_aqlen() && i < 32; i++) if (ff & (1u << i)) vx_h_u64(h, (uint64_t)(fidx(sc_shim_aqbuf()[i]) + 8));
	for (int i = 0; i < NF; i++) { vx_h_u64(h, fibres[i].priv); vx_h_u64(h, (uint64_t)(nidx(fibres[i].link.next) + 8)); }
	/* model */
	vx_h_bytes(h, Mo.runq, sizeof(Mo.runq)); vx_h_u64(h, (uint64_t)Mo.nrun);
	for (int i = 0; i < Mo.ntq; i++) { vx_h_u64(h, (uint64_t)Mo.tq[i]); vx_h_u64(h, (uint64_t)(Mo.due[Mo.tq[i]] - Mo.now)); }
	vx_h_u64(h, 0xee);
	vx_h_bytes(h, Mo.aq, sizeof(Mo.aq)); vx_h_u64(h, (uint64_t)Mo.naq);
	vx_h_u64(h, (uint64_t)(Mo.cur + 8)); vx_h_u64(h, Mo.cur >= 0 ? (uint64_t)Mo.last_ret : 9);
	vx_h_bytes(h, Mo.pc, sizeof(Mo.pc)); vx_h_u64(h, Mo.timers_used);
}

/* ------------------------------------------------------------ configurations */

typedef struct {
	const char *name;
	int nf;
	uint32_t base;
	int prefill, cursor_adv;	/* start state: atomic queue cursors advanced, then pre-filled */
	int aq_limit;
	int ndelta; int32_t deltas[8];
	int ndt; uint32_t dts[8];
	int allow2;
	int with_runa;			/* run_atomic in the alphabet (external and inside scripts) */
	int burst;			/* scripts may post 3, 7 or 8 fibre_run_atomic requests in a row (the scope's limit is 8 undrained) */
	int sleepers;			/* start state: this many fibres already asleep, all due one tick later, registered f0, f1, ... */
	int with_kill;
	int depth_quick, depth_thorough;
} config_t;

static config_t configs[96]; static int nconfigs;

static void build_configs(void)
{
	config_t c;
#if PROP == 1
	/* dispatch-centred: timers only as "a fibre asleep while others run" */
	static const struct { int prefill, adv, limit; } starts[] = { {0, 0, 3}, {6, 0, 9}, {7, 3, 9}, {8, 5, 9}, {0, 6, 3}, {3, 7, 4}, {2, 0, 3}, {5, 2, 7} };
	for (unsigned i = 0; i < lengthof(starts); i++) {
		memset(&c, 0, sizeof(c));
		static char names[16][48]; snprintf(names[i], 48, "c01-n3-prefill%d-adv%d", starts[i].prefill, starts[i].adv);
		/* the time base sits on a wrap point: behaviour must not depend on it (a non-cyclic comparison anywhere shows) */
		static const uint32_t c01bases[] = { 0xfffffffe, 0x7ffffffe, 0xffffffff, 1000, 0xfffffffd, 0x7fffffff, 0xfffffffe, 0x7ffffffd };
		c.name = names[i]; c.nf = 3; c.base = c01bases[i % 8]; c.prefill = starts[i].prefill; c.cursor_adv = starts[i].adv; c.aq_limit = starts[i].limit;
		c.ndelta = 2; c.deltas[0] = 1; c.deltas[1] = 2;
		c.ndt = 2; c.dts[0] = 0; c.dts[1] = 2;
		c.allow2 = 1; c.with_runa = 1; c.with_kill = 1;
		c.depth_quick = starts[i].prefill ? 3 : 4; c.depth_thorough = starts[i].prefill ? 4 : 5;
		configs[nconfigs++] = c;
	}
	/* 4 fibres, single-action scripts */
	memset(&c, 0, sizeof(c));
	c.name = "c01-n4-single"; c.nf = 4; c.base = 0xfffffffe; c.aq_limit = 3; c.ndelta = 1; c.deltas[0] = 1; c.ndt = 2; c.dts[0] = 0; c.dts[1] = 1;
	c.allow2 = 0; c.with_runa = 1; c.with_kill = 1; c.depth_quick = 5; c.depth_thorough = 7;
	configs[nconfigs++] = c;
	/* 2 fibres, deep */
	memset(&c, 0, sizeof(c));
	c.name = "c01-n2-deep"; c.nf = 2; c.base = 0x7ffffffe; c.aq_limit = 3; c.ndelta = 2; c.deltas[0] = 1; c.deltas[1] = 2; c.ndt = 2; c.dts[0] = 0; c.dts[1] = 2;
	c.allow2 = 1; c.with_runa = 1; c.with_kill = 1; c.depth_quick = 6; c.depth_thorough = 8;
	configs[nconfigs++] = c;
#elif PROP == 2
	/* timer-centred alphabet, repeated for every placement of the time base */
	static uint32_t bases[32]; int nb = 0;
	bases[nb++] = 0; bases[nb++] = 12345;
	for (int k = 0; k <= 6; k++) { bases[nb++] = 0x80000000u - (uint32_t)k; bases[nb++] = 0u - (uint32_t)k; }
	bases[nb++] = 0x80000000u - 0x7fffff00u - 2; bases[nb++] = 0u - 0x7fffff00u - 1;	/* the far due time lands on the wrap */
	for (int i = 0; i < nb; i++) {
		memset(&c, 0, sizeof(c));
		static char names[40][48]; snprintf(names[i], 48, "c02-n3-base%08x", bases[i]);
		c.name = names[i]; c.nf = 3; c.base = bases[i]; c.aq_limit = 0;
		c.ndelta = 7; c.deltas[0] = -1; c.deltas[1] = 0; c.deltas[2] = 1; c.deltas[3] = 2; c.deltas[4] = 3; c.deltas[5] = 0x7fffff00; c.deltas[6] = 0x7fffffff;	/* the scope's limit: within 2^31 ticks */
		c.ndt = 5; c.dts[0] = 0; c.dts[1] = 1; c.dts[2] = 2; c.dts[3] = 5; c.dts[4] = 0x7ffffff0;
		c.allow2 = 1; c.with_runa = 0; c.with_kill = 1;
		c.depth_quick = 3; c.depth_thorough = 4;
		configs[nconfigs++] = c;
	}
	/* single-action scripts go deeper (more sleepers alive at once), a few bases */
	static const uint32_t b2[] = { 7, 0xfffffffd, 0x7ffffffd, 0xffffffff };
	for (unsigned i = 0; i < lengthof(b2); i++) {
		memset(&c, 0, sizeof(c));
		static char names[8][48]; snprintf(names[i], 48, "c02-n3-single-base%08x", b2[i]);
		c.name = names[i]; c.nf = 3; c.base = b2[i]; c.aq_limit = 0;
		c.ndelta = 5; c.deltas[0] = 0; c.deltas[1] = 1; c.deltas[2] = 2; c.deltas[3] = 3; c.deltas[4] = 0x7fffff00;
		c.ndt = 4; c.dts[0] = 0; c.dts[1] = 1; c.dts[2] = 2; c.dts[3] = 0x7ffffff0;
		c.allow2 = 0; c.with_runa = 0; c.with_kill = 1;
		c.depth_quick = 5; c.depth_thorough = 7;
		configs[nconfigs++] = c;
	}
	/* "made runnable by any other means" includes fibre_run_atomic: the timer alphabet with interrupt-style requests */
	static const uint32_t b5[] = { 3, 0xfffffffe, 0x7ffffffe };
	for (unsigned i = 0; i < lengthof(b5); i++) {
		memset(&c, 0, sizeof(c));
		static char names[4][48]; snprintf(names[i], 48, "c02-n3-runa-base%08x", b5[i]);
		c.name = names[i]; c.nf = 3; c.base = b5[i]; c.aq_limit = 2;
		c.ndelta = 5; c.deltas[0] = 0; c.deltas[1] = 1; c.deltas[2] = 2; c.deltas[3] = 0x7ffffffe; c.deltas[4] = 0x40000000;
		c.ndt = 4; c.dts[0] = 0; c.dts[1] = 1; c.dts[2] = 2; c.dts[3] = 0x7ffffff0;
		c.allow2 = 1; c.with_runa = 1; c.with_kill = 1;
		c.depth_quick = 3; c.depth_thorough = 4;
		configs[nconfigs++] = c;
	}
	/* many timeouts expiring in one pass ("any number of fibres"): five sleepers due together, a sixth fibre to run */
	static const uint32_t b6[] = { 10, 0xfffffffe };
	for (unsigned i = 0; i < lengthof(b6); i++) {
		memset(&c, 0, sizeof(c));
		static char names[2][48]; snprintf(names[i], 48, "c02-n6-sleepers5-base%08x", b6[i]);
		c.name = names[i]; c.nf = 6; c.base = b6[i]; c.aq_limit = 0; c.sleepers = 5;
		c.ndelta = 1; c.deltas[0] = 1;
		c.ndt = 2; c.dts[0] = 0; c.dts[1] = 1;
		c.allow2 = 0; c.with_runa = 0; c.with_kill = 0; c.depth_quick = 4; c.depth_thorough = 5;
		configs[nconfigs++] = c;
	}
	/* four sleepers */
	memset(&c, 0, sizeof(c));
	c.name = "c02-n4-single"; c.nf = 4; c.base = 0xfffffffc; c.aq_limit = 0;
	c.ndelta = 4; c.deltas[0] = 1; c.deltas[1] = 2; c.deltas[2] = 3; c.deltas[3] = 4;
	c.ndt = 3; c.dts[0] = 0; c.dts[1] = 1; c.dts[2] = 2;
	c.allow2 = 0; c.with_runa = 0; c.with_kill = 1; c.depth_quick = 6; c.depth_thorough = 8;
	configs[nconfigs++] = c;
#else
	/* wake-up value: everything that can make a fibre runnable or leave a timer pending */
	static const uint32_t b3[] = { 500, 0xffffffff, 0x7fffffff, 0x80000001, 0xfffffff0, 0x7ffffff0, 0x80000000u - 0x7fffff00u - 1, 1 };
	for (unsigned i = 0; i < lengthof(b3); i++) {
		memset(&c, 0, sizeof(c));
		static char names[8][48]; snprintf(names[i], 48, "c03-n3-base%08x", b3[i]);
		c.name = names[i]; c.nf = 3; c.base = b3[i]; c.aq_limit = 2;
		c.ndelta = 4; c.deltas[0] = 0; c.deltas[1] = 1; c.deltas[2] = 3; c.deltas[3] = 0x7fffff00;
		c.ndt = 3; c.dts[0] = 0; c.dts[1] = 1; c.dts[2] = 3;
		c.allow2 = 1; c.with_runa = 1; c.with_kill = 1;
		c.depth_quick = 3; c.depth_thorough = 4;
		configs[nconfigs++] = c;
	}
	/* a pass that ends with 3, 7 or 8 undrained requests posted by the fibre it dispatched */
	for (unsigned i = 0; i < 2; i++) {
		memset(&c, 0, sizeof(c));
		static char names[2][48]; static const uint32_t bb[] = { 77, 0xfffffffe }; snprintf(names[i], 48, "c03-n3-burst-base%08x", bb[i]);
		c.name = names[i]; c.nf = 3; c.base = bb[i]; c.aq_limit = 8; c.burst = 1;
		c.ndelta = 2; c.deltas[0] = 1; c.deltas[1] = 0x7fffff00;
		c.ndt = 2; c.dts[0] = 0; c.dts[1] = 1;
		c.allow2 = 1; c.with_runa = 0; c.with_kill = 1;
		c.depth_quick = 3; c.depth_thorough = 4;
		configs[nconfigs++] = c;
	}
	static const uint32_t b4[] = { 0, 0xfffffffe, 0x7ffffffe, 0x12345678 };
	for (unsigned i = 0; i < lengthof(b4); i++) {
		memset(&c, 0, sizeof(c));
		static char names[8][48]; snprintf(names[i], 48, "c03-n3-single-base%08x", b4[i]);
		c.name = names[i]; c.nf = 3; c.base = b4[i]; c.aq_limit = 2;
		c.ndelta = 3; c.deltas[0] = 1; c.deltas[1] = 2; c.deltas[2] = 0x7fffff00;
		c.ndt = 3; c.dts[0] = 0; c.dts[1] = 1; c.dts[2] = 2;
		c.allow2 = 0; c.with_runa = 1; c.with_kill = 1;
		c.depth_quick = 5; c.depth_thorough = 7;
		configs[nconfigs++] = c;
	}
#endif
}

static int setup(const config_t *c)
{
	cfgname = c->name;
	NF = c->nf; base = c->base; aq_limit = c->aq_limit; allow2 = c->allow2;
	ND = c->ndelta; memcpy(deltas, c->deltas, sizeof(deltas));
	NDT = c->ndt; memcpy(dts, c->dts, sizeof(dts));
	/* actions */
	NA = 0; acts[NA++] = (act_t){ A_NONE, 0 };
	for (int g = 0; g < NF; g++) acts[NA++] = (act_t){ A_RUN, (int8_t)g };
	if (c->with_kill) for (int g = 0; g < NF; g++) acts[NA++] = (act_t){ A_KILL, (int8_t)g };
	if (c->with_runa) for (int g = 0; g < NF; g++) acts[NA++] = (act_t){ A_RUNA, (int8_t)g };
	if (c->burst) { acts[NA++] = (act_t){ A_BURST, 3 }; acts[NA++] = (act_t){ A_BURST, 7 }; acts[NA++] = (act_t){ A_BURST, 8 }; }
	for (int d = 0; d < ND; d++) acts[NA++] = (act_t){ A_TMO, (int8_t)d };
	nops_total = OP_NEXT0 + NDT * NA * NA * 4;
	probe_dt_all = 0x7ffffff8;
	for (int i = 0; i < ND; i++) if (deltas[i] > 0x7f000000) probe_dt_all = 0x7ffffff8;
	/* reset the scheduler to what its own static initialisers give it (the image taken at program start): not to a
	 * re-initialisation with parameters this harness believes to be the same */
	vx_lib_reset();
	for (int i = 0; i < MAXF; i++) fibre_init(&fibres[i], body);
	memset(&Mo, 0, sizeof(Mo)); Mo.cur = -1; Mo.last_ret = 0;
	/* Build the start state with checked operations: position the clock with one idle
	 * pass, advance the cursors of the 8-slot atomic queue (request + pass that
	 * dispatches it), then pre-fill the queue. Any misbehaviour is a violation. */
	in_setup = 1;
	int bad = 0, save_limit = aq_limit;
	aq_limit = 9;
	dts[NDT] = 0;
	bad = do_next(NDT, 0, 0, PT_WAITING);
	for (int i = 0; i < c->cursor_adv && !bad; i++) {
		bad = op_apply(NF + 0);
		if (!bad) bad = do_next(NDT, 0, 0, PT_EXITED);
	}
	if (c->cursor_adv && !bad) bad = do_next(NDT, 0, 0, PT_WAITING);	/* idle pass: nothing current any more */
	for (int i = 0; i < c->prefill && !bad; i++) bad = op_apply(NF + i % NF);
	for (int i = 0; i < c->sleepers && !bad; i++) {	/* run(fi); pass{timeout(now+deltas[0]), wait} - time stands still meanwhile */
		int tmo = -1; for (int a = 0; a < NA; a++) if (acts[a].kind == A_TMO && acts[a].arg == 0) tmo = a;
		bad = op_apply(i);
		if (!bad) bad = do_next(NDT, tmo, 0, PT_WAITING);
	}
	aq_limit = save_limit;
	in_setup = 0;
	return bad;
}
static const config_t *curcfg;
static int enabled_wrap(int op)
{
	if (op >= NF && op < 2 * NF && !curcfg->with_runa) return 0;
	if (op >= 2 * NF && op < 3 * NF && !curcfg->with_kill) return 0;
	return op_enabled(op);
}

int main(int argc, char **argv)
{
	vx_init(argc, argv);
	vx_install_handlers();
	vx_watchdog(2.0);
	build_configs();
	vx_bfs b = { .size = sizeof(snap_t), .enabled = enabled_wrap, .apply = op_apply, .canon = op_canon,
		     .describe = op_describe, .save = st_save, .load = st_load, .on_new = probe,
		     .lib_unhashed = 1 /* op_canon is a time-shift-invariant form of the scheduler state; the raw image (absolute times) is saved with every state but not hashed */ };
	static snap_t dummy; b.live = &dummy;
	char *rp = vx_read_replay();
	if (rp) {
		const char *cn = vx_replay_field(rp, "config");
		for (int i = 0; i < nconfigs; i++) if (cn && !strcmp(cn, configs[i].name)) {
			curcfg = &configs[i]; b.name = curcfg->name;
			if (setup(curcfg)) break;
			b.nops = nops_total;
			probe_depth = -1;
			if (vx_bfs_replay(&b, rp) == 0) { probe_depth = 0; probe(0); }	/* the failure may sit in the frontier probe */
		}
		vx_finish();
		return 0;
	}
	for (int i = 0; i < nconfigs; i++) {
		if (!vx_mine((uint64_t)i)) continue;
		curcfg = &configs[i];
		if (setup(curcfg)) { vx_and("exhaustive", 0); continue; }
		b.name = curcfg->name; b.nops = nops_total;
		b.max_depth = vx_thorough() ? curcfg->depth_thorough : curcfg->depth_quick;
		probe_depth = b.max_depth;
		vx_bfs_run(&b);
		vx_count("states", b.states); vx_count("transitions", b.transitions); vx_count("traces", b.transitions);
		vx_count("scope_guard_disabled_ops", b.disabled);
		vx_and("exhaustive", !b.capped);
		if (b.capped) vx_note("config %s stopped at the deadline after completing depth %d of %d", curcfg->name, b.depth_done, b.max_depth);
		vx_min("min_depth_completed", (uint64_t)b.depth_done); vx_max("max_depth_completed", (uint64_t)b.depth_done);
		vx_count("configs", 1);
		{
			vx_sb hs = {0}; static uint32_t ops[64];
			int n = vx_store_trace(&b.st, b.st.n - 1, ops, 64);
			st_load(b.st.data);	/* decode ops against this config */
			for (int k = 0; k < n; k++) { if (k) vx_sb_printf(&hs, "; "); op_describe((int)ops[k], &hs); }
			vx_sample("%s: depth %d%s, %llu states, %llu transitions; last history: %s", curcfg->name, b.depth_done,
				  b.fixpoint ? " (fixpoint)" : "", (unsigned long long)b.states, (unsigned long long)b.transitions, hs.s ? hs.s : "");
			free(hs.s);
		}
		vx_bfs_free(&b);
	}
	vx_count("foreign_divergences", foreign_divergences);
	vx_count("op_run", n_ops_kind[0]); vx_count("op_run_atomic", n_ops_kind[1]); vx_count("op_kill", n_ops_kind[2]);
	vx_count("op_next", n_ops_kind[3]); vx_count("op_next_with_1_action", n_ops_kind[4]); vx_count("op_next_with_2_actions", n_ops_kind[5]);
	vx_finish();
	return 0;
}

/*
 * The scheduler under test with a window into its private state: fibre.c itself plus a handful of accessors, compiled
 * as one of the lib= objects of the sched parts (bin/checks.d/C01.py ...). Everything fibre.c keeps in statics - the
 * `kernel` structure, the storage of its atomic run queue, and whatever a later version adds - therefore lies in the
 * library image that engine/vx.h snapshots, restores and resets; harness/sched.c never shares a translation unit with it.
 * Only the canonical form of a state (harness/sched.c: op_canon) needs the layout, through these accessors.
 */
#include "fibre.c"

list_t *sc_shim_runq(void) { return &kernel.runq; }
list_t *sc_shim_timerq(void) { return &kernel.timerq; }
fibre_t *sc_shim_current(void) { return kernel.current; }
int sc_shim_state(void) { return (int)kernel.state; }
uint32_t sc_shim_now(void) { return kernel.now; }
messageq_t *sc_shim_atomic_runq(void) { return &kernel.atomic_runq; }
fibre_t **sc_shim_aqbuf(void) { return atomic_runq_buf; }
unsigned sc_shim_aqlen(void) { return (unsigned)lengthof(atomic_runq_buf); }

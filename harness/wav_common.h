/*
 * wav_common.h - corpus, reference parser and reporting shared by
 *   C13 (decode-first clause: re-encode every accepted string) and
 *   C14 (decoding untrusted bytes).
 *
 * Include after vx.h and <librfn/wavheader.h> (needs rf_wavheader_t). The librfn sources are
 * NOT part of this translation unit: the parts are built with lib=[pack.c, util.c, string.c,
 * wavheader.c] (bin/checks.d/C13.py, C14.py), so a new static or helper of the library can never
 * clash with a name used here. wavheader.c exports the objects riff, wave, fmt, fact, data and
 * null_id; nothing here defines an external symbol, every name at file scope starts with w_/W_.
 *
 * The corpus (DESIGN.md section 4, C14) is a finite set enumerated completely:
 *   S: every byte string of length 0..slen (slen = 2 quick, 3 thorough), decoded at its
 *      full length (its truncations are members of S themselves);
 *   H: nine header templates (PCM16, PCM32, float+fact, extensible, 20-byte fmt chunk, PCM16+fact,
 *      extensible+fact, PCM16 followed by a LIST chunk, float+fact followed by a JUNK chunk); every
 *      header that differs from its template in at most maxdev fields (2 quick / 3 thorough), each
 *      deviating field taking every value of a menu derived from the field's kind, its template
 *      value and the constants the grammar compares it with (w_end); the header is followed by
 *      W_TRAIL extra bytes, and is presented at EVERY truncation length 0..len+W_TRAIL.
 *      A prefix that ends at or before the last deviating field is byte for byte an input of the
 *      case without that deviation, which is enumerated on its own: such prefixes (t <= tdup) are
 *      not judged a second time (the C14 truncation clause still learns their result).
 * Work is dealt to the workers in units (template), (template, first deviating field)
 * for single deviations and (template, first field, its value) for deeper ones.
 */
#ifndef WAV_COMMON_H_
#define WAV_COMMON_H_

#define W_TRAIL 2
#define W_MAXF 24
#define W_MAXALT 64
#define W_MAXDEV 3
#define W_BUFMAX 96		/* longest template (extensible + fact chunk: 80 bytes) + W_TRAIL, rounded up; the hex line of a
				 * replay file must stay below the 256 bytes of vx_replay_field */
#define W_MAXTMPL 12

/* ------------------------------------------------- own little-endian access */
static void w_put16(uint8_t *p, uint32_t v) { p[0] = (uint8_t)v; p[1] = (uint8_t)(v >> 8); }
static void w_put32(uint8_t *p, uint32_t v) { w_put16(p, v); w_put16(p + 2, v >> 16); }
static uint32_t w_get16(const uint8_t *p) { return (uint32_t)p[0] | (uint32_t)p[1] << 8; }
static uint32_t w_get32(const uint8_t *p) { return w_get16(p) | w_get16(p + 2) << 16; }

/* ------------------------------------------------------------- templates */
enum { WK_ID, WK_U16, WK_U32, WK_GUID };
static const int w_kwidth[] = { 4, 2, 4, 16 };

typedef struct { const char *name; int off, kind, nalt; uint8_t alt[W_MAXALT][16]; uint8_t core[W_MAXALT]; /* member of the reduced menu used for triple deviations */ } w_field;
typedef struct { const char *name; int len, nf; w_field f[W_MAXF]; uint8_t bytes[W_BUFMAX]; } w_template;
static w_template w_tmpl[W_MAXTMPL];
static int w_ntmpl;

static w_template *w_bt;	/* template being built */
static void w_begin(const char *name) { if (w_ntmpl >= W_MAXTMPL) _exit(3); w_bt = &w_tmpl[w_ntmpl++]; memset(w_bt, 0, sizeof(*w_bt)); w_bt->name = name; }
static w_field *w_addf(const char *name, int kind)
{
	w_field *f = &w_bt->f[w_bt->nf++];
	f->name = name; f->kind = kind; f->off = w_bt->len; f->nalt = 0;
	w_bt->len += w_kwidth[kind];
	return f;
}
static void w_id(const char *name, const char *id) { w_field *f = w_addf(name, WK_ID); memcpy(w_bt->bytes + f->off, id, 4); }
static void w_u16(const char *name, uint32_t v) { w_field *f = w_addf(name, WK_U16); w_put16(w_bt->bytes + f->off, v); }
static void w_u32(const char *name, uint32_t v) { w_field *f = w_addf(name, WK_U32); w_put32(w_bt->bytes + f->off, v); }
static void w_guid(const char *name, const uint8_t *g) { w_field *f = w_addf(name, WK_GUID); memcpy(w_bt->bytes + f->off, g, 16); }

static int w_core;	/* values added while this is set belong to the core menu as well */
static void w_add_alt(w_template *T, w_field *f, const uint8_t *v)
{
	int w = w_kwidth[f->kind];
	if (0 == memcmp(T->bytes + f->off, v, (size_t)w)) return;	/* not a deviation */
	for (int i = 0; i < f->nalt; i++) if (0 == memcmp(f->alt[i], v, (size_t)w)) { if (w_core) f->core[i] = 1; return; }
	if (f->nalt >= W_MAXALT) { fprintf(stderr, "wav_common: menu too large\n"); _exit(3); }
	f->core[f->nalt] = (uint8_t)w_core;
	memset(f->alt[f->nalt], 0, 16); memcpy(f->alt[f->nalt++], v, (size_t)w);
}
static void w_add_num(w_template *T, w_field *f, uint32_t v)
{
	uint8_t b[16] = { 0 };
	if (f->kind == WK_U16) w_put16(b, v & 0xffff); else w_put32(b, v);
	w_add_alt(T, f, b);
}
/* The menus (DESIGN section 4 C14, widened after the white-box review).
 *  ids:    one byte off at EACH of the four positions; the case of each letter flipped, position by position and all at
 *          once; the chunk ids met in real files: fact, data, LIST, bext, JUNK, FACT, "fmt ".
 *  16-bit: 0, 1, 3, 22, 0xfffe, 0xffff; 0x100 and 0xff00 (low byte 0), 0x7fff and 0x8000 (sign bit); and for every
 *          constant K the field is compared with or carries - its template value, the format tags 1 / 3 / 0xfffe,
 *          the sample widths 16 / 32, the extension size 22 - the values K + 0x100 (equal to K in the low byte) and
 *          K + 0x8000 (equal to K in the low 15 bits).
 *  32-bit: 0, 1, 4, 12, 15..19, 40, 41, v-1, v+1, 0x7fffffff, 0x80000000, 0xffffffee..0xffffffff, and v + 0x100,
 *          v + 0x10000 (equal to the template value v in the low 8 / 16 bits).
 *  GUID:   all zero, first bit flipped, and the 16-bit menu of the format tag in its first two bytes.
 * Headers with one or two deviating fields draw from these menus. Headers with three (thorough tier) draw from the core menu
 * of each kind: ids last / first byte off, fact, data, LIST; 16-bit 0, 1, 3, 22, 0xfffe, 0xffff, 0x100, 0x8000; 32-bit 0, 1, 16, 17, 18,
 * 40, v+1, 0x7fffffff, 0x80000000, 0xffffffee, 0xfffffff7, 0xffffffff; GUID all zero, tag 0xfffe, tag 3. */
static void w_add_k16(w_template *T, w_field *f, uint32_t k) { w_add_num(T, f, (k + 0x100) & 0xffff); w_add_num(T, f, (k + 0x8000) & 0xffff); }
static int w_isalpha(uint8_t c) { return (c >= 'a' && c <= 'z') || (c >= 'A' && c <= 'Z'); }
static void w_end(void)
{
	w_template *T = w_bt;
	static const uint32_t m16[] = { 0, 1, 3, 0xfffe, 0xffff, 22, 0x100, 0xff00, 0x7fff, 0x8000 };
	static const uint32_t tag16[] = { 0x101, 0x8001, 0x103, 0x8003, 0x00fe, 0x7ffe };	/* K + 0x100, K + 0x8000 for the tags 1, 3, 0xfffe */
	static const uint32_t m32[] = { 0, 1, 4, 12, 15, 16, 17, 18, 19, 40, 41 };
	static const char *const ids[] = { "fact", "data", "LIST", "bext", "JUNK", "FACT", "fmt " };
	if (T->len + W_TRAIL > W_BUFMAX) { fprintf(stderr, "wav_common: template too long\n"); _exit(3); }
	T->bytes[T->len] = 0xa5; T->bytes[T->len + 1] = 0x5a;
	for (int i = 0; i < T->nf; i++) {
		w_field *f = &T->f[i]; uint8_t b[16]; uint32_t cur; int letters = 0;
		/* the core menu first (triple deviations, thorough tier, draw from it alone) */
		w_core = 1;
		switch (f->kind) {
		case WK_ID:
			memcpy(b, T->bytes + f->off, 4); b[3]++; w_add_alt(T, f, b); memcpy(b, T->bytes + f->off, 4); b[0]++; w_add_alt(T, f, b);
			w_add_alt(T, f, (const uint8_t *)"fact"); w_add_alt(T, f, (const uint8_t *)"data"); w_add_alt(T, f, (const uint8_t *)"LIST");
			break;
		case WK_U16:
			{ static const uint32_t c16[] = { 0, 1, 3, 22, 0xfffe, 0xffff, 0x100, 0x8000 }; for (unsigned k = 0; k < sizeof(c16) / sizeof(c16[0]); k++) w_add_num(T, f, c16[k]); }
			break;
		case WK_U32:
			{ static const uint32_t c32[] = { 0, 1, 16, 17, 18, 40, 0x7fffffffu, 0x80000000u, 0xffffffeeu, 0xfffffff7u, 0xffffffffu };
			  for (unsigned k = 0; k < sizeof(c32) / sizeof(c32[0]); k++) w_add_num(T, f, c32[k]);
			  w_add_num(T, f, w_get32(T->bytes + f->off) + 1); }
			break;
		case WK_GUID:
			memset(b, 0, 16); w_add_alt(T, f, b);
			memcpy(b, T->bytes + f->off, 16); b[0] = 0xfe; b[1] = 0xff; w_add_alt(T, f, b);
			memcpy(b, T->bytes + f->off, 16); b[0] = 3; b[1] = 0; w_add_alt(T, f, b);
			break;
		}
		w_core = 0;
		switch (f->kind) {
		case WK_ID:
			for (int k = 0; k < 4; k++) { memcpy(b, T->bytes + f->off, 4); b[k]++; w_add_alt(T, f, b); }	/* one byte off, each position */
			for (int k = 0; k < 4; k++) {
				memcpy(b, T->bytes + f->off, 4);
				if (w_isalpha(b[k])) { b[k] ^= 0x20; w_add_alt(T, f, b); letters++; }
			}
			memcpy(b, T->bytes + f->off, 4);
			for (int k = 0; k < 4; k++) if (w_isalpha(b[k])) b[k] ^= 0x20;
			if (letters) w_add_alt(T, f, b);
			for (unsigned k = 0; k < sizeof(ids) / sizeof(ids[0]); k++) w_add_alt(T, f, (const uint8_t *)ids[k]);
			break;
		case WK_U16:
			cur = w_get16(T->bytes + f->off);
			for (unsigned k = 0; k < sizeof(m16) / sizeof(m16[0]); k++) w_add_num(T, f, m16[k]);
			w_add_k16(T, f, cur);
			if (0 == strcmp(f->name, "audio_format")) for (unsigned k = 0; k < sizeof(tag16) / sizeof(tag16[0]); k++) w_add_num(T, f, tag16[k]);
			if (0 == strcmp(f->name, "bits_per_sample") || 0 == strcmp(f->name, "valid_bits_per_sample")) { w_add_k16(T, f, 16); w_add_k16(T, f, 32); }
			if (0 == strcmp(f->name, "cb_size")) w_add_k16(T, f, 22);
			break;
		case WK_U32:
			cur = w_get32(T->bytes + f->off);
			for (unsigned k = 0; k < sizeof(m32) / sizeof(m32[0]); k++) w_add_num(T, f, m32[k]);
			w_add_num(T, f, cur - 1); w_add_num(T, f, cur + 1);
			w_add_num(T, f, cur + 0x100); w_add_num(T, f, cur + 0x10000);
			w_add_num(T, f, 0x7fffffffu); w_add_num(T, f, 0x80000000u);
			for (uint32_t v = 0xffffffeeu; v != 0; v++) w_add_num(T, f, v);
			break;
		case WK_GUID:
			memset(b, 0, 16); w_add_alt(T, f, b);
			memcpy(b, T->bytes + f->off, 16); b[0] ^= 1; w_add_alt(T, f, b);
			/* the first two bytes of the sub-format GUID are a format tag of their own: the 16-bit menu of a tag applies */
			for (unsigned k = 0; k < sizeof(m16) / sizeof(m16[0]); k++) { memcpy(b, T->bytes + f->off, 16); b[0] = (uint8_t)m16[k]; b[1] = (uint8_t)(m16[k] >> 8); w_add_alt(T, f, b); }
			for (unsigned k = 0; k < sizeof(tag16) / sizeof(tag16[0]); k++) { memcpy(b, T->bytes + f->off, 16); b[0] = (uint8_t)tag16[k]; b[1] = (uint8_t)(tag16[k] >> 8); w_add_alt(T, f, b); }
			break;
		}
	}
}
static void w_fmt_body(uint32_t af, uint32_t ch, uint32_t rate, uint32_t bytes)
{
	w_u16("audio_format", af); w_u16("num_channels", ch); w_u32("sample_rate", rate);
	w_u32("byte_rate", rate * ch * bytes); w_u16("block_align", ch * bytes); w_u16("bits_per_sample", bytes * 8);
}
static void w_setup_templates(void)
{
	static const uint8_t pcm_guid[16] = { 1, 0, 0, 0, 0, 0, 0x10, 0, 0x80, 0, 0, 0xaa, 0, 0x38, 0x9b, 0x71 };
	/* RIFF sizes differ in their low byte so that the templates part company at byte 4 */
	w_begin("PCM16");
	w_id("chunk_id", "RIFF"); w_u32("chunk_size", 36 + 4000); w_id("format", "WAVE");
	w_id("fmt_chunk_id", "fmt "); w_u32("fmt_chunk_size", 16); w_fmt_body(1, 2, 44100, 2);
	w_id("data_chunk_id", "data"); w_u32("data_chunk_size", 4000); w_end();
	w_begin("PCM32");
	w_id("chunk_id", "RIFF"); w_u32("chunk_size", 36 + 8000); w_id("format", "WAVE");
	w_id("fmt_chunk_id", "fmt "); w_u32("fmt_chunk_size", 16); w_fmt_body(1, 1, 8000, 4);
	w_id("data_chunk_id", "data"); w_u32("data_chunk_size", 8000); w_end();
	w_begin("FLOAT+fact");
	w_id("chunk_id", "RIFF"); w_u32("chunk_size", 50 + 4000); w_id("format", "WAVE");
	w_id("fmt_chunk_id", "fmt "); w_u32("fmt_chunk_size", 18); w_fmt_body(3, 1, 44100, 4); w_u16("cb_size", 0);
	w_id("fact_chunk_id", "fact"); w_u32("fact_chunk_size", 4); w_u32("sample_length", 1000);
	w_id("data_chunk_id", "data"); w_u32("data_chunk_size", 4000); w_end();
	w_begin("EXT40");
	w_id("chunk_id", "RIFF"); w_u32("chunk_size", 60 + 8000); w_id("format", "WAVE");
	w_id("fmt_chunk_id", "fmt "); w_u32("fmt_chunk_size", 40); w_fmt_body(0xfffe, 2, 48000, 4); w_u16("cb_size", 22);
	w_u16("valid_bits_per_sample", 24); w_u32("channel_mask", 3); w_guid("sub_format", pcm_guid);
	w_id("data_chunk_id", "data"); w_u32("data_chunk_size", 8000); w_end();
	w_begin("FMT20");	/* fmt chunk >= 18 without the 22-byte extension: 2 ignored bytes */
	w_id("chunk_id", "RIFF"); w_u32("chunk_size", 40 + 4000); w_id("format", "WAVE");
	w_id("fmt_chunk_id", "fmt "); w_u32("fmt_chunk_size", 20); w_fmt_body(1, 2, 44100, 2); w_u16("cb_size", 2);
	w_u16("ignored_ext", 0xadde);
	w_id("data_chunk_id", "data"); w_u32("data_chunk_size", 4000); w_end();
	/* a fact chunk does not depend on the shape of the fmt chunk: 16-byte fmt + fact, 40-byte extensible fmt + fact */
	w_begin("PCM16+fact");
	w_id("chunk_id", "RIFF"); w_u32("chunk_size", 48 + 4004); w_id("format", "WAVE");
	w_id("fmt_chunk_id", "fmt "); w_u32("fmt_chunk_size", 16); w_fmt_body(1, 2, 44100, 2);
	w_id("fact_chunk_id", "fact"); w_u32("fact_chunk_size", 4); w_u32("sample_length", 1001);
	w_id("data_chunk_id", "data"); w_u32("data_chunk_size", 4004); w_end();
	w_begin("EXT40+fact");
	w_id("chunk_id", "RIFF"); w_u32("chunk_size", 72 + 8008); w_id("format", "WAVE");
	w_id("fmt_chunk_id", "fmt "); w_u32("fmt_chunk_size", 40); w_fmt_body(0xfffe, 2, 48000, 4); w_u16("cb_size", 22);
	w_u16("valid_bits_per_sample", 24); w_u32("channel_mask", 3); w_guid("sub_format", pcm_guid);
	w_id("fact_chunk_id", "fact"); w_u32("fact_chunk_size", 4); w_u32("sample_length", 1001);
	w_id("data_chunk_id", "data"); w_u32("data_chunk_size", 8008); w_end();
	/* files met in practice carry other chunks between fmt and data. For the grammar librfn documents the chunk that
	 * follows fmt (or fact) IS the last chunk of the header, whatever its id: these two templates are a 44-byte and a
	 * 58-byte header followed by 12 / 14 further bytes that happen to look like the rest of a longer header */
	w_begin("PCM16+LIST");
	w_id("chunk_id", "RIFF"); w_u32("chunk_size", 48 + 4012); w_id("format", "WAVE");
	w_id("fmt_chunk_id", "fmt "); w_u32("fmt_chunk_size", 16); w_fmt_body(1, 2, 44100, 2);
	w_id("data_chunk_id", "LIST"); w_u32("data_chunk_size", 4); w_id("list_type", "INFO");
	w_id("next_chunk_id", "data"); w_u32("next_chunk_size", 4012); w_end();
	w_begin("FLOAT+fact+JUNK");
	w_id("chunk_id", "RIFF"); w_u32("chunk_size", 64 + 4016); w_id("format", "WAVE");
	w_id("fmt_chunk_id", "fmt "); w_u32("fmt_chunk_size", 18); w_fmt_body(3, 1, 44100, 4); w_u16("cb_size", 0);
	w_id("fact_chunk_id", "fact"); w_u32("fact_chunk_size", 4); w_u32("sample_length", 1004);
	w_id("data_chunk_id", "JUNK"); w_u32("data_chunk_size", 6); w_u32("junk_payload", 0x11223344); w_u16("junk_payload2", 0x5566);
	w_id("next_chunk_id", "data"); w_u32("next_chunk_size", 4016); w_end();
}

/* ------------------------------------------------------------------ cases */
typedef struct {
	int tmpl;			/* -1: plain byte string */
	int nd, fld[W_MAXDEV], alt[W_MAXDEV];
	uint8_t buf[W_BUFMAX];
	int n, tmin;			/* presented at every length tmin..n */
	int tdup;			/* lengths <= tdup are inputs of a case with fewer deviations (-1: none) */
	char desc[256];
} w_case;
typedef void (*w_case_fn)(const w_case *c);

static int w_stop;			/* set when the deadline passed */
static uint64_t w_cases_seen;

static void w_tick(void) { if ((++w_cases_seen & 1023) == 0 && vx_deadline_passed()) w_stop = 1; }

static void w_mkdesc(w_case *c)
{
	w_template *T = &w_tmpl[c->tmpl];
	int k = snprintf(c->desc, sizeof(c->desc), "%s[", T->name);
	for (int i = 0; i < c->nd; i++) {
		w_field *f = &T->f[c->fld[i]]; const uint8_t *v = f->alt[c->alt[i]];
		if (i) k += snprintf(c->desc + k, sizeof(c->desc) - (size_t)k, ",");
		if (f->kind == WK_ID) k += snprintf(c->desc + k, sizeof(c->desc) - (size_t)k, "%s='%c%c%c%c'", f->name, v[0], v[1], v[2], v[3]);
		else if (f->kind == WK_GUID) k += snprintf(c->desc + k, sizeof(c->desc) - (size_t)k, "%s=alt%d", f->name, c->alt[i]);
		else k += snprintf(c->desc + k, sizeof(c->desc) - (size_t)k, "%s=0x%x", f->name,
				   f->kind == WK_U16 ? w_get16(v) : w_get32(v));
	}
	snprintf(c->desc + k, sizeof(c->desc) - (size_t)k, "]");
}

/* Is the input (first t bytes of c) attributed to this case for the purpose of counting
 * distinct inputs?  A prefix that does not show the last deviation (entirely, or because the
 * visible bytes of that field equal the template's) is the same input as a prefix of the case
 * without that deviation, which is enumerated on its own. */
static int w_owns(const w_case *c, int t)
{
	if (c->tmpl < 0 || c->nd <= 0) return 1;
	w_template *T = &w_tmpl[c->tmpl]; w_field *f = &T->f[c->fld[c->nd - 1]];
	int s = f->off, e = s + w_kwidth[f->kind];
	if (t <= s) return 0;
	return 0 != memcmp(c->buf + s, T->bytes + s, (size_t)((t < e ? t : e) - s));
}

static w_case w_cc;
static void w_rec(int from, int want, w_case_fn fn, int partitioned)
{
	w_template *T = &w_tmpl[w_cc.tmpl];
	if (w_cc.nd == want) {
		w_tick();
		w_cc.tdup = w_cc.nd ? T->f[w_cc.fld[w_cc.nd - 1]].off : -1;
		if (!w_stop) { w_mkdesc(&w_cc); fn(&w_cc); }
		return;
	}
	for (int f = from; f < T->nf && !w_stop; f++) {
		w_field *F = &T->f[f]; int w = w_kwidth[F->kind]; uint8_t keep[16];
		if (partitioned && w_cc.nd == 0 && want == 1 && !vx_mine(100 + (uint64_t)w_cc.tmpl * W_MAXF + (uint64_t)f)) continue;
		memcpy(keep, w_cc.buf + F->off, (size_t)w);
		for (int a = 0; a < F->nalt && !w_stop; a++) {
			if (want >= 3 && !F->core[a]) continue;	/* triple deviations: core menu */
			if (partitioned && w_cc.nd == 0 && want >= 2 &&
			    !vx_mine(1000 + ((uint64_t)w_cc.tmpl * W_MAXF + (uint64_t)f) * W_MAXALT + (uint64_t)a)) continue;
			memcpy(w_cc.buf + F->off, F->alt[a], (size_t)w);
			w_cc.fld[w_cc.nd] = f; w_cc.alt[w_cc.nd] = a; w_cc.nd++;
			w_rec(f + 1, want, fn, partitioned);
			w_cc.nd--;
		}
		memcpy(w_cc.buf + F->off, keep, (size_t)w);
	}
}
/* every header with exactly `want` deviating fields */
static void w_enum_headers(int want, w_case_fn fn, int partitioned)
{
	for (int t = 0; t < w_ntmpl && !w_stop; t++) {
		if (partitioned && want == 0 && !vx_mine((uint64_t)t)) continue;
		memset(&w_cc, 0, sizeof(w_cc));
		w_cc.tmpl = t; w_cc.n = w_tmpl[t].len + W_TRAIL; w_cc.tmin = 0;
		memcpy(w_cc.buf, w_tmpl[t].bytes, (size_t)w_cc.n);
		w_rec(0, want, fn, partitioned);
	}
}
/* every byte string of exactly `len` bytes */
static void w_enum_strings(int len, w_case_fn fn, int partitioned)
{
	uint64_t total = 1ULL << (8 * len);
	for (uint64_t v = 0; v < total && !w_stop; v++) {
		if (partitioned && !vx_mine(len == 0 ? 0 : (v & 0xff))) { if (len) continue; else break; }
		memset(&w_cc, 0, sizeof(w_cc));
		w_cc.tmpl = -1; w_cc.n = w_cc.tmin = len; w_cc.tdup = -1;
		int k = snprintf(w_cc.desc, sizeof(w_cc.desc), "bytes[");
		for (int i = 0; i < len; i++) {	/* first byte = low byte of v, so the partition is by first byte */
			w_cc.buf[i] = (uint8_t)(v >> (8 * i));
			k += snprintf(w_cc.desc + k, sizeof(w_cc.desc) - (size_t)k, "%02x", w_cc.buf[i]);
		}
		snprintf(w_cc.desc + k, sizeof(w_cc.desc) - (size_t)k, "]");
		w_tick(); if (!w_stop) fn(&w_cc);
	}
}

/* replay text of a case / a case from replay text */
static char *w_case_replay(const w_case *c)
{
	vx_sb sb = { 0 };
	vx_sb_printf(&sb, "kind=wavbytes\ndesc=%s\ntmpl=%d\nn=%d\ntmin=%d\ntdup=%d\nhex=", c->desc, c->tmpl, c->n, c->tmin, c->tdup);
	for (int i = 0; i < c->n; i++) vx_sb_printf(&sb, "%02x", c->buf[i]);
	vx_sb_printf(&sb, "\n");
	return sb.s;
}
static int w_case_parse(const char *rp, w_case *c)
{
	const char *v;
	memset(c, 0, sizeof(*c));
	if (!(v = vx_replay_field(rp, "desc"))) return -1;
	snprintf(c->desc, sizeof(c->desc), "%s", v);
	if (!(v = vx_replay_field(rp, "tmpl"))) return -1;
	c->tmpl = atoi(v);
	if (!(v = vx_replay_field(rp, "n"))) return -1;
	c->n = atoi(v);
	if (!(v = vx_replay_field(rp, "tmin"))) return -1;
	c->tmin = atoi(v);
	c->tdup = (v = vx_replay_field(rp, "tdup")) ? atoi(v) : -1;
	if (!(v = vx_replay_field(rp, "hex"))) return -1;
	if (c->n < 0 || c->n > W_BUFMAX || (int)strlen(v) != 2 * c->n || c->tmin < 0 || c->tdup >= c->n) return -1;
	for (int i = 0; i < c->n; i++) { unsigned b; if (sscanf(v + 2 * i, "%2x", &b) != 1) return -1; c->buf[i] = (uint8_t)b; }
	c->nd = -1;	/* unknown; w_owns() is not used when replaying */
	return 0;
}

/* ------------------------------------------------- guarded placement of inputs */
static uint8_t *w_right_end;		/* one past a W_BUFMAX-byte area that ends at a PROT_NONE page */
static uint8_t *w_left;			/* a W_BUFMAX-byte area that begins right after a PROT_NONE page */
static rf_wavheader_t *w_wh;		/* decode target, its last byte flush against a PROT_NONE page */
static uint8_t *w_enc_end;		/* one past a W_BUFMAX-byte area for exactly-sized encode buffers */

static void w_setup_guards(void)
{
	w_right_end = (uint8_t *)vx_guard_alloc(W_BUFMAX, 1) + W_BUFMAX;
	w_left = vx_guard_alloc(W_BUFMAX, 0);
	w_wh = vx_guard_alloc(sizeof(rf_wavheader_t), 1);
	w_enc_end = (uint8_t *)vx_guard_alloc(W_BUFMAX, 1) + W_BUFMAX;
}
/* the first t bytes of src in a buffer of exactly t bytes whose end (right=1) or start is guarded */
static const uint8_t *w_place(const uint8_t *src, int t, int right)
{
	uint8_t *p = right ? w_right_end - t : w_left;
	if (t) memcpy(p, src, (size_t)t);
	return p;
}

/* ------------------------------------------------------ reference parser
 * Independent, 64-bit, same grammar as the WAV header layout librfn documents:
 *   RIFF size WAVE | "fmt " size, 16 bytes | if size >= 18: cb_size, then the 22-byte
 *   extension when cb_size == 22, otherwise size-18 ignored bytes | optional "fact" size
 *   sample_length | id size.
 * It looks only at the n bytes it is given. Where the size field of a chunk disagrees with the fixed layout (fmt sizes
 * below 16, 17 or odd; cb_size 22 in a fmt chunk that is not 40 bytes; a fact chunk whose size field is not 4, the size of
 * the one payload word of the layout) the statement does not say how long the header is: consistent = 0. */
typedef struct {
	int complete;			/* the whole header lies inside the n bytes */
	uint64_t len;			/* header length (valid when complete) */
	int consistent;			/* 0: the statement does not define this header's length */
	uint64_t skip_off, skip_len;	/* ignored extension bytes (valid when complete) */
	uint32_t fmt_size; int have_fmt_size;
} w_ref;

static void w_ref_parse(const uint8_t *b, uint64_t n, w_ref *r)
{
	uint64_t pos;
	memset(r, 0, sizeof(*r));
	r->consistent = 1;
	if (n < 20) return;				/* fmt size not even present */
	r->fmt_size = w_get32(b + 16); r->have_fmt_size = 1;
	if (r->fmt_size < 16 || r->fmt_size == 17 || (r->fmt_size & 1)) r->consistent = 0;
	pos = 36;
	if (r->fmt_size >= 18) {
		if (n < 38) return;
		uint32_t cb = w_get16(b + 36);
		pos = 38;
		if (cb == 22) { pos += 22; if (r->fmt_size != 40) r->consistent = 0; }
		else { r->skip_off = 38; r->skip_len = (uint64_t)r->fmt_size - 18; pos += r->skip_len; }
	}
	if (pos + 4 > n) return;
	if (0 == memcmp(b + pos, "fact", 4)) {
		if (pos + 8 <= n && w_get32(b + pos + 4) != 4) r->consistent = 0;
		pos += 12;
	}
	pos += 8;
	r->len = pos;
	r->complete = pos <= n;
}

/* ------------------------------------------------- big headers
 * Headers whose fmt chunk carries a long extension the decoder skips (cb_size != 22): the header itself is then
 * longer than 64 KiB / 16 MiB, so every width an offset or length could be narrowed to is crossed. Full product of
 *   extension length E (fmt size = 18 + E) x cb_size x format tag x with/without fact chunk x 0 or 2 trailing bytes. */
static const uint32_t w_big_ext[] = { 0, 2, 24, 254, 256, 258, 4096, 65516, 65518, 65534, 65536, 65538, 65560, 100000, 131072,
				      16777214, 16777216, 16777240 };
static const uint32_t w_big_cb[] = { 0, 2, 21, 23, 0xffff };
static const uint32_t w_big_af[] = { 0xfffe, 1, 3 };
#define W_NBIG_EXT ((int)(sizeof(w_big_ext) / sizeof(w_big_ext[0])))
#define W_NBIG (W_NBIG_EXT * 5 * 3 * 2 * 2)
#define W_BIGMAX (16777240u + 128u)
typedef struct { uint32_t ext, cb, af; int fact, trail; } w_bigcase;
static void w_big_get(int i, w_bigcase *c)
{
	c->trail = i % 2 ? 2 : 0; i /= 2;
	c->fact = i % 2; i /= 2;
	c->af = w_big_af[i % 3]; i /= 3;
	c->cb = w_big_cb[i % 5]; i /= 5;
	c->ext = w_big_ext[i];
}
static uint8_t w_big_byte(uint64_t i) { return (uint8_t)(1 + i % 251); }	/* never zero: a skipped byte copied instead of zeroed shows */
/* writes the header + trailing bytes into b (capacity W_BIGMAX), returns the total length */
static uint64_t w_big_build(const w_bigcase *c, uint8_t *b)
{
	uint64_t n = 0;
	memcpy(b, "RIFF", 4); memcpy(b + 8, "WAVE", 4); memcpy(b + 12, "fmt ", 4); w_put32(b + 16, 18 + c->ext);
	w_put16(b + 20, c->af); w_put16(b + 22, 2); w_put32(b + 24, 48000); w_put32(b + 28, 48000 * 4); w_put16(b + 32, 4); w_put16(b + 34, 16);
	w_put16(b + 36, c->cb);
	n = 38;
	for (uint64_t i = 0; i < c->ext; i++) b[n + i] = w_big_byte(i);
	n += c->ext;
	if (c->fact) { memcpy(b + n, "fact", 4); w_put32(b + n + 4, 4); w_put32(b + n + 8, 1000); n += 12; }
	memcpy(b + n, "data", 4); w_put32(b + n + 4, 4000); n += 8;
	w_put32(b + 4, (uint32_t)(n - 8 + 4000));
	for (int i = 0; i < c->trail; i++) b[n + (uint64_t)i] = 0x5a;
	return n + (uint64_t)c->trail;
}
static char *w_big_replay(const w_bigcase *c)
{
	char *s = NULL;
	if (asprintf(&s, "big=1\next=%u\ncb=%u\naf=%u\nfact=%d\ntrail=%d\n", c->ext, c->cb, c->af, c->fact, c->trail) < 0) _exit(3);
	return s;
}
static int w_big_parse(const char *rp, w_bigcase *c)
{
	const char *v;
	if (!(v = vx_replay_field(rp, "big"))) return 1;
	c->ext = (uint32_t)strtoul(vx_replay_field(rp, "ext"), NULL, 10); c->cb = (uint32_t)strtoul(vx_replay_field(rp, "cb"), NULL, 10);
	c->af = (uint32_t)strtoul(vx_replay_field(rp, "af"), NULL, 10); c->fact = atoi(vx_replay_field(rp, "fact")); c->trail = atoi(vx_replay_field(rp, "trail"));
	return 0;
}
/* two areas of W_BIGMAX bytes, each followed by a PROT_NONE page: w_big_in_end / w_big_out_end point one past them */
static uint8_t *w_big_in_end, *w_big_out_end, *w_big_img;
static void w_big_setup(void)
{
	if (w_big_img) return;
	w_big_in_end = (uint8_t *)vx_guard_alloc(W_BIGMAX, 1) + W_BIGMAX;
	w_big_out_end = (uint8_t *)vx_guard_alloc(W_BIGMAX, 1) + W_BIGMAX;
	w_big_img = malloc(W_BIGMAX);
	if (!w_big_img) _exit(3);
}

/* ------------------------------------------------- coarse violation classes
 * One signature per (clause, class): the first case that shows it supplies the minimal
 * input named in the signature, the replay and the message; later cases of the same class
 * are counted under that signature. All workers first run the small common part of the
 * corpus silently (w_silent) so that they agree on these first cases. */
typedef struct { char *key, *sig, *replay, *msg; int emitted; } w_class;
static w_class w_classes[64];
static int w_nclasses;
static int w_silent;

__attribute__((format(printf, 4, 5)))
static void w_report(const char *key, const char *casetxt, const char *replay, const char *fmt_, ...)
{
	w_class *e = NULL;
	for (int i = 0; i < w_nclasses; i++) if (0 == strcmp(w_classes[i].key, key)) { e = &w_classes[i]; break; }
	if (!e) {
		va_list ap; va_start(ap, fmt_); char *m = vx_vfmt(fmt_, ap); va_end(ap);
		char *sig = NULL;
		if (asprintf(&sig, "%s|%s", key, casetxt) < 0) _exit(3);
		if (w_nclasses < 64) {
			e = &w_classes[w_nclasses++];
			e->key = strdup(key); e->sig = sig; e->replay = strdup(replay); e->msg = m; e->emitted = 0;
		} else {
			if (!w_silent) vx_violation(sig, replay, "%s", m);
			free(sig); free(m);
			return;
		}
	}
	if (!w_silent) { vx_violation(e->sig, e->replay, "%s", e->msg); e->emitted = 1; }
}

/* ------------------------------------------------- endless loops
 * A call that never returns costs one to two watchdog periods, and the inputs that provoke it come in thousands: after
 * W_MAXHANGS of them the worker stops enumerating (the run is then not exhaustive, a note says so) and hands in what it
 * found - including the classes it met only in the silent common part, which would otherwise be lost. */
#define W_MAXHANGS 2
static int w_hang_abort;
static void w_after_fault(void)
{
	if (vx_hangs_seen >= W_MAXHANGS) { w_hang_abort = 1; w_stop = 1; }
	else if (vx_fault_kind == VX_FAULT_HANG && vx_deadline_passed()) w_stop = 1;
}
static void w_flush_classes(void)
{
	for (int i = 0; i < w_nclasses; i++)
		if (!w_classes[i].emitted) { vx_violation(w_classes[i].sig, w_classes[i].replay, "%s", w_classes[i].msg); w_classes[i].emitted = 1; }
}
/* call once, after the enumeration */
static void w_hang_epilogue(void)
{
	if (!w_hang_abort) return;
	w_flush_classes();
	vx_note("enumeration stopped after %d calls that did not return within a watchdog period (each is reported as a violation); the stated space was not completed", W_MAXHANGS);
}

#define W_COUNT(name, k) do { if (!w_silent) vx_count(name, k); } while (0)

#endif /* WAV_COMMON_H_ */

/* Stand-alone reproducer (no explorer): three accepted fibre_run_atomic requests
 * must be dispatched in their order of arrival (property C01).
 * gcc -I/repo/include repro/C01_atomic_order.c /repo/librfn/{fibre,list,messageq,util}.c ... (see Makefile line below)
 *   gcc -I/repo/include -o /tmp/c01 repro/C01_atomic_order.c /repo/librfn/fibre.c /repo/librfn/list.c /repo/librfn/messageq.c && /tmp/c01
 * Before the fix this printed "order: C B A" and exited 1. */
#include <stdio.h>
#include <librfn/fibre.h>

static char order[8]; static int n;
static int body(fibre_t *f);
static fibre_t fa = FIBRE_VAR_INIT(body), fb = FIBRE_VAR_INIT(body), fc = FIBRE_VAR_INIT(body);
static int body(fibre_t *f)
{
	PT_BEGIN_FIBRE(f);
	order[n++] = f == &fa ? 'A' : f == &fb ? 'B' : 'C';
	PT_END();
}
int32_t cyclecmp32(uint32_t a, uint32_t b) { return (int32_t)(a - b); }
int main(void)
{
	fibre_run_atomic(&fa); fibre_run_atomic(&fb); fibre_run_atomic(&fc);
	for (int i = 0; i < 3; i++) fibre_scheduler_next(0);
	printf("order: %c %c %c\n", order[0], order[1], order[2]);
	return !(order[0] == 'A' && order[1] == 'B' && order[2] == 'C');
}

/* Stand-alone reproducer (no explorer) for the C04 defect: on a full depth-1 queue a failing
 * messageq_claim() transiently stores 255 into the unsigned free counter; a second claim that
 * runs in that window (here: an interrupt-style nested call injected between the decrement and
 * its correction) is handed the buffer that is still owned.
 *
 *   gcc -O1 -fsanitize=thread -I/repo/include -c /repo/librfn/messageq.c -o /tmp/mq.o
 *   gcc -I/repo/include repro/C04_double_claim.c /tmp/mq.o -o /tmp/c04 && /tmp/c04
 *
 * messageq.c is compiled with -fsanitize=thread only so that its atomics become calls we can
 * hook; the few ABI functions it needs are defined below (no libtsan).
 * Before the fix: "nested claim got 0x... although the only buffer is still owned" and exit 1. */
#include <stdint.h>
#include <stdio.h>
#include <librfn/messageq.h>

static messageq_t mq; static char store[4];
static void *nested; static int armed;

unsigned char __tsan_atomic8_fetch_add(volatile unsigned char *a, unsigned char v, int mo)
{
	(void)mo;
	if (armed) { armed = 0; nested = messageq_claim(&mq); }	/* the interrupt arrives right before the correction */
	return __atomic_fetch_add(a, v, __ATOMIC_SEQ_CST);
}
unsigned char __tsan_atomic8_fetch_sub(volatile unsigned char *a, unsigned char v, int mo) { (void)mo; return __atomic_fetch_sub(a, v, __ATOMIC_SEQ_CST); }
unsigned char __tsan_atomic8_load(const volatile unsigned char *a, int mo) { (void)mo; return __atomic_load_n(a, __ATOMIC_SEQ_CST); }
void __tsan_atomic8_store(volatile unsigned char *a, unsigned char v, int mo) { (void)mo; __atomic_store_n(a, v, __ATOMIC_SEQ_CST); }
int __tsan_atomic8_compare_exchange_weak(volatile unsigned char *a, unsigned char *e, unsigned char v, int mo, int fmo)
{ (void)mo; (void)fmo; return __atomic_compare_exchange_n(a, e, v, 0, __ATOMIC_SEQ_CST, __ATOMIC_SEQ_CST); }
int __tsan_atomic8_compare_exchange_strong(volatile unsigned char *a, unsigned char *e, unsigned char v, int mo, int fmo)
{ (void)mo; (void)fmo; return __atomic_compare_exchange_n(a, e, v, 0, __ATOMIC_SEQ_CST, __ATOMIC_SEQ_CST); }
unsigned __tsan_atomic32_fetch_or(volatile unsigned *a, unsigned v, int mo) { (void)mo; return __atomic_fetch_or(a, v, __ATOMIC_SEQ_CST); }
unsigned __tsan_atomic32_fetch_and(volatile unsigned *a, unsigned v, int mo) { (void)mo; return __atomic_fetch_and(a, v, __ATOMIC_SEQ_CST); }
unsigned __tsan_atomic32_load(const volatile unsigned *a, int mo) { (void)mo; return __atomic_load_n(a, __ATOMIC_SEQ_CST); }
void __tsan_init(void) {} void __tsan_func_entry(void *p) { (void)p; } void __tsan_func_exit(void) {}
void __tsan_read1(void *a) { (void)a; } void __tsan_read2(void *a) { (void)a; } void __tsan_read4(void *a) { (void)a; } void __tsan_read8(void *a) { (void)a; }
void __tsan_write1(void *a) { (void)a; } void __tsan_write2(void *a) { (void)a; } void __tsan_write4(void *a) { (void)a; } void __tsan_write8(void *a) { (void)a; }
void __tsan_write_range(void *a, unsigned long n) { (void)a; (void)n; } void __tsan_read_range(void *a, unsigned long n) { (void)a; (void)n; }

int main(void)
{
	messageq_init(&mq, store, sizeof(store), sizeof(store));	/* depth 1 */
	void *first = messageq_claim(&mq);				/* the only buffer is now owned (claimed, unsent) */
	armed = 1;
	void *second = messageq_claim(&mq);				/* must fail: nothing is free ... */
	printf("first=%p second=%p nested=%p\n", first, second, nested);
	if (nested) { printf("nested claim got %p although the only buffer is still owned\n", nested); return 1; }	/* ... and so must the nested one */
	return second != NULL;
}

/* gcc -I/repo/include repro/C13_wavheader_init.c /repo/librfn/{wavheader,pack,string,util}.c /repo/librfn/posix/time_posix.c
 * Before the fixes: PCM header of 44 bytes carried RIFF size 50 (want 36); stale contents survived init. */
#include <stdio.h>
#include <string.h>
#include <librfn.h>
int main(void){ rf_wavheader_t h,d; uint8_t b[128]; int n, bad = 0;
 memset(&h,0,sizeof h); rf_wavheader_init(&h,44100,2,RF_WAVHEADER_S16LE);
 n=rf_wavheader_encode(&h,b,sizeof b); printf("A: %d-byte header, RIFF size %u, want %d\n",n,h.chunk_size,n-8); bad |= h.chunk_size != (unsigned)n-8;
 rf_wavheader_set_num_frames(&h,1); n=rf_wavheader_encode(&h,b,sizeof b); rf_wavheader_decode(b,n,&d);
 printf("C: sample_length %u -> %u\n",h.sample_length,d.sample_length); bad |= h.sample_length != d.sample_length;
 memset(&h,0x55,sizeof h); rf_wavheader_init(&h,44100,2,RF_WAVHEADER_S16LE);
 n=rf_wavheader_encode(&h,b,sizeof b); rf_wavheader_decode(b,n,&d);
 printf("B: validate=%d\n",rf_wavheader_validate(&h)); bad |= rf_wavheader_validate(&h) != 0;
 memset(&h,0,sizeof h); rf_wavheader_init(&h,44100,2,RF_WAVHEADER_FLOAT); rf_wavheader_init(&h,44100,2,RF_WAVHEADER_S16LE);
 n=rf_wavheader_encode(&h,b,sizeof b); printf("B: %d bytes, RIFF %u, want %d\n",n,h.chunk_size,n-8); bad |= h.chunk_size != (unsigned)n-8;
 return bad; }

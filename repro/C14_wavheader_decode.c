/* gcc -I/repo/include repro/C14_wavheader_decode.c /repo/librfn/{wavheader,pack,string,util}.c /repo/librfn/posix/time_posix.c
 * Before the fix: decode(20 bytes) = 16 ("success", below RF_WAVHEADER_MIN_SIZE) and tostring died with SIGFPE. */
#include <stdio.h>
#include <stdlib.h>
#include <string.h>
#include <librfn.h>
int main(void){ static const uint8_t in[20]={'R','I','F','F',0xc4,0x0f,0,0,'W','A','V','E','f','m','t',' ',0xf4,0xff,0xff,0xff};
 uint8_t *p=malloc(20); rf_wavheader_t h; memcpy(p,in,20);
 int r = rf_wavheader_decode(p,20,&h);
 printf("decode(20 bytes) = %d\n", r);
 printf("decode(0 bytes) = %d\n", rf_wavheader_decode(p,0,&h)); fflush(stdout);
 free(rf_wavheader_tostring(&h)); return r >= 0 && r <= 20; }

/* gcc -I/repo/include repro/C15_console_backspace.c /repo/librfn/{console,fibre,list,messageq,ringbuf,util}.c /repo/librfn/posix/time_posix.c
 * Before the fix: typing  a b c BACKSPACE NEWLINE  ran the command "abc" instead of "ab". */
#include <stdio.h>
#include <string.h>
#include <librfn/console.h>
static char seen[80];
static pt_state_t grab(console_t *c) { snprintf(seen, sizeof(seen), "%s", c->argv[0]); return PT_EXITED; }
static const console_cmd_t cab = CONSOLE_CMD_VAR_INIT("ab", grab), cabc = CONSOLE_CMD_VAR_INIT("abc", grab);
void console_hwinit(console_t *c) { (void)c; }
int main(void)
{
	static console_t c;
	console_register(&cab); console_register(&cabc);
	console_init(&c, fopen("/dev/null", "w"));
	for (const char *p = "abc\b\n"; *p; p++) console_process(&c, *p);
	printf("command run: \"%s\" (expected \"ab\")\n", seen);
	return strcmp(seen, "ab") != 0;
}

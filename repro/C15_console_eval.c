/* gcc -I/repo/include repro/C15_console_eval.c /repo/librfn/{console,fibre,list,messageq,ringbuf,util}.c /repo/librfn/posix/time_posix.c
 * Before the fix: a 16-character script (longer than the 15-byte input ring) injected with console_eval was
 * executed over and over: the cursor lived in the scratch area that every new prompt clears. */
#include <stdio.h>
#include <librfn/console.h>
static int runs, done;
static pt_state_t grab(console_t *c) { (void)c; runs++; return PT_EXITED; }
static const console_cmd_t cab = CONSOLE_CMD_VAR_INIT("ab", grab);
void console_hwinit(console_t *c) { (void)c; }
static console_t con; static pt_t evpt;
static int evbody(fibre_t *f) { (void)f; pt_state_t s = console_eval(&evpt, &con, "ab aaaa aaaa\nab\n"); if (s >= PT_EXITED) done = 1; return s; }
static fibre_t evf = FIBRE_VAR_INIT(evbody);
int main(void)
{
	console_register(&cab);
	console_init(&con, fopen("/dev/null", "w"));
	fibre_run(&evf);
	for (uint32_t t = 0; t < 400; t++) fibre_scheduler_next(t);
	printf("eval completed: %d, command ran %d times (expected: completed, 2 times)\n", done, runs);
	return !(done && runs == 2);
}

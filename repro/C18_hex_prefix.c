/* gcc -I/repo/include repro/C18_hex_prefix.c /repo/librfn/hex.c
 * Before the fix: "00 01\n0010: 02\n" parsed as the single byte 02. */
#include <stdio.h>
#include <librfn/hex.h>
int main(void)
{
	const char *text = "00 01\n0010: 02\n", *p;
	int n = 0, b;
	printf("bytes:");
	for (b = hex_get_byte(text, &p); b >= 0; b = hex_get_byte(NULL, &p), n++) printf(" %02x", b);
	printf("  (%d bytes, expected 3: 00 01 02)\n", n);
	b = hex_get_byte("00\n0:\n", &p);
	printf("minimal: first call returns %d, expected 0\n", b);
	return !(n == 3 && b == 0);
}

/* gcc -I/repo/include repro/C19_rotenc_count14.c /repo/librfn/rotenc.c
 * Before the fix: printed count14=16128 (expect 0) and count14=0 (expect 256). */
#include <stdio.h>
#include <librfn/rotenc.h>
#define STEP(x, y) rotenc_decode(&r, ((x) << 1) + (y))
int main(void)
{
	rotenc_t r = ROTENC_VAR_INIT; int bad = 0;
	STEP(1, 0);
	printf("count=%u count14=%u (expect 0 0)\n", rotenc_count(&r), rotenc_count14(&r));
	bad |= rotenc_count14(&r) != 0;
	STEP(0, 0);
	for (int i = 0; i < 256; i++) { STEP(0, 1); STEP(1, 1); STEP(1, 0); STEP(0, 0); }
	STEP(1, 0);
	printf("count=%u count14=%u (expect 0 256)\n", rotenc_count(&r), rotenc_count14(&r));
	bad |= rotenc_count14(&r) != 256;
	return bad;
}
